package main

// Contract language: lexer, parser, AST.  Contracts live in comment-only files
// (//@ lines).  See DESIGN.md §2.3 / Appendix A.

import (
	"fmt"
	"math/big"
	"os"
	"strconv"
	"strings"
)

// ---------- AST ----------

type Expr interface{ exprNode() }

type (
	EIdent struct{ Name string }
	EAt    struct{ Name string } // @pos, @idx ...
	EInt   struct{ V *big.Int }
	EStr   struct{ V string }
	EBool  struct{ V bool }
	ENil   struct{}
	EUnary struct {
		Op string
		X  Expr
	}
	EBinary struct {
		Op   string
		X, Y Expr
	}
	ECall struct {
		Fun  string
		Args []Expr
	}
	EIndex struct{ X, I Expr }
	ESlice struct{ X, Lo, Hi Expr }
	EField struct {
		X    Expr
		Name string
	}
	EQuant struct {
		Forall   bool
		Vars     []Binder
		Triggers [][]Expr
		Body     Expr
	}
	EMethod struct { // pure interface method call: x.M(args)
		X    Expr
		Name string
		Args []Expr
	}
	EOld struct {
		Kind string // "old" (function entry) or "pre" (loop entry)
		X    Expr
	}
	EIte struct{ C, A, B Expr }
	ERaw struct { // raw SMT with $name substitutions
		Sort string
		Text string
	}
)

func (EIdent) exprNode()  {}
func (EAt) exprNode()     {}
func (EInt) exprNode()    {}
func (EStr) exprNode()    {}
func (EBool) exprNode()   {}
func (ENil) exprNode()    {}
func (EUnary) exprNode()  {}
func (EBinary) exprNode() {}
func (ECall) exprNode()   {}
func (EIndex) exprNode()  {}
func (ESlice) exprNode()  {}
func (EField) exprNode()  {}
func (EQuant) exprNode()  {}
func (EOld) exprNode()    {}
func (EMethod) exprNode() {}
func (EIte) exprNode()    {}
func (ERaw) exprNode()    {}

type Binder struct {
	Name string
	Type string // source text of type
}

type Clause struct {
	Kind     string // requires ensures invariant decreases modifies assume
	E        Expr
	Text     string
	Props    []string
	Name     string // optional label
	Known    string // optional known-finding tag
	Internal bool   // ensures over locals of the body: checked, but not assumed at call sites
	Assumed  string // non-empty: postcondition assumed at call sites and NOT checked in the body (reason); listed in evidence
	Site     int    // ensures: >= 0 restricts the clause to the return statement with that source-order ordinal
}

type LoopSpec struct {
	Ord        int
	Invariants []*Clause
	Decreases  *Clause
	// Free: additional assumed (not checked) facts are NOT supported on purpose.
}

type LetSpec struct {
	Name   string
	E      Expr
	Loop   int
	Text   string
	Before bool
	Type   string // optional declared type: makes the ghost visible (as an unknown value) to callers
}

type CallSpec struct {
	Assumed string // non-empty: the clause is assumed at the call site (reason), not proved
	Callee string
	Nth    int // -1 = all
	Req    *Clause
}

type FuncContract struct {
	Key        string // e.g. "parseInt", "(*File).AddRetract", "CheckPath$1"
	Pkg        string // package path, filled by loader
	File       string
	Line       int
	Requires   []*Clause
	Ensures    []*Clause
	Modifies   []string
	ModAll     bool
	Pure       bool
	Mode       string // "int" or "bv64"
	Props      []string
	Loops      map[int]*LoopSpec
	Calls      []*CallSpec
	Decr       *Clause
	Trusted    string // non-empty: body not verified, reason (assumption)
	NoOvf      bool
	Kind       string   // func, iface, extern
	Params     []Binder // for extern/iface (declared signature)
	Results    []Binder
	Allocates  bool
	AutoFrame  bool // loops carry the automatic invariant "cells that existed at entry are unchanged" for components outside modifies
	Terminates bool
	Uses       []string // lemmas to include
	ExitHints  []Expr   // the same, evaluated in the state of every return (may mention result)
	Hints      []Expr   // terms over entry values mentioned to the solver (E-matching seeds); no logical content
	PanicsIf   []*Clause
	Opaque     bool
	Lets       []*LetSpec
	FuncParams map[string]*FuncContract
	MathInts   string // non-empty: machine arithmetic treated as mathematical in this function (assumption, with reason)
}

type SpecFunc struct {
	Name    string
	Params  []Binder
	Result  string
	Body    Expr // nil = uninterpreted
	Macro   bool
	Pkg     string
	Decr    Expr
	NoAxiom bool
	Opaque  bool // declared + triggered defining axiom even when non-recursive
	Uses    []string
	Text    string
	File    string
	Line    int
}

type Lemma struct {
	Name     string
	Params   []Binder
	Requires []*Clause
	Ensures  []*Clause
	Induct   string // "" = direct, else by measure
	Measure  Expr
	Pkg      string
	Props    []string
	Uses     []string
	Axiom    bool // assumed, with reason
	Reason   string
	Triggers [][]Expr
	Text     string
	File     string
	Line     int
	Mode     string
	Hint     []Expr // extra instantiation hints (terms asserted as trivially true equalities)
	Anchors  [][2]string // (file relative to the repository, text it must contain) for axioms that transcribe source text
}

type GlobalFact struct {
	Name string
	E    Expr
	Text string
	Pkg  string
}

type GhostComp struct {
	Name string
	Type string
	Pkg  string
}

type ContractFile struct {
	Ghosts  []*GhostComp
	Pkg     string
	Path    string
	Funcs   []*FuncContract
	Specs   []*SpecFunc
	Lemmas  []*Lemma
	RawSMT  []string
	Globals []*GlobalFact
}

// ---------- lexer ----------

type tok struct {
	k    string // id int str char op eof raw
	s    string
	line int
}

type lexer struct {
	src  string
	pos  int
	line int
	toks []tok
	file string
}

func isIdStart(c byte) bool {
	return c == '_' || c >= 'a' && c <= 'z' || c >= 'A' && c <= 'Z'
}
func isIdCont(c byte) bool { return isIdStart(c) || c >= '0' && c <= '9' }

func lexAll(file, src string, baseLine int) ([]tok, error) {
	lx := &lexer{src: src, line: baseLine, file: file}
	for {
		t, err := lx.next()
		if err != nil {
			return nil, err
		}
		lx.toks = append(lx.toks, t)
		if t.k == "eof" {
			return lx.toks, nil
		}
	}
}

var ops3 = []string{"<==>", "==>", "<<", ">>", "<=", ">=", "==", "!=", "&&", "||", "::", "&^"}

func (lx *lexer) next() (tok, error) {
	for lx.pos < len(lx.src) {
		c := lx.src[lx.pos]
		if c == '\n' {
			lx.line++
			lx.pos++
		} else if c == ' ' || c == '\t' || c == '\r' {
			lx.pos++
		} else if c == '#' { // comment to end of line
			for lx.pos < len(lx.src) && lx.src[lx.pos] != '\n' {
				lx.pos++
			}
		} else {
			break
		}
	}
	if lx.pos >= len(lx.src) {
		return tok{k: "eof", line: lx.line}, nil
	}
	c := lx.src[lx.pos]
	start := lx.pos
	switch {
	case isIdStart(c):
		for lx.pos < len(lx.src) && (isIdCont(lx.src[lx.pos]) || lx.src[lx.pos] == '$' && lx.pos+1 < len(lx.src) && isIdCont(lx.src[lx.pos+1])) {
			lx.pos++
		}
		return tok{k: "id", s: lx.src[start:lx.pos], line: lx.line}, nil
	case c >= '0' && c <= '9':
		for lx.pos < len(lx.src) && (isIdCont(lx.src[lx.pos])) {
			lx.pos++
		}
		return tok{k: "int", s: lx.src[start:lx.pos], line: lx.line}, nil
	case c == '"':
		lx.pos++
		for lx.pos < len(lx.src) && lx.src[lx.pos] != '"' {
			if lx.src[lx.pos] == '\\' {
				lx.pos++
			}
			lx.pos++
		}
		lx.pos++
		if lx.pos > len(lx.src) {
			return tok{}, fmt.Errorf("%s:%d: unterminated string", lx.file, lx.line)
		}
		s, err := strconv.Unquote(lx.src[start:lx.pos])
		if err != nil {
			return tok{}, fmt.Errorf("%s:%d: bad string %s", lx.file, lx.line, lx.src[start:lx.pos])
		}
		return tok{k: "str", s: s, line: lx.line}, nil
	case c == '`':
		lx.pos++
		for lx.pos < len(lx.src) && lx.src[lx.pos] != '`' {
			if lx.src[lx.pos] == '\n' {
				lx.line++
			}
			lx.pos++
		}
		lx.pos++
		return tok{k: "raw", s: lx.src[start+1 : lx.pos-1], line: lx.line}, nil
	case c == '\'':
		lx.pos++
		for lx.pos < len(lx.src) && lx.src[lx.pos] != '\'' {
			if lx.src[lx.pos] == '\\' {
				lx.pos++
			}
			lx.pos++
		}
		lx.pos++
		r, _, _, err := strconv.UnquoteChar(lx.src[start+1:lx.pos-1], '\'')
		if err != nil {
			return tok{}, fmt.Errorf("%s:%d: bad char %s", lx.file, lx.line, lx.src[start:lx.pos])
		}
		return tok{k: "int", s: strconv.Itoa(int(r)), line: lx.line}, nil
	case c == '@':
		lx.pos++
		for lx.pos < len(lx.src) && isIdCont(lx.src[lx.pos]) {
			lx.pos++
		}
		return tok{k: "at", s: lx.src[start+1 : lx.pos], line: lx.line}, nil
	}
	for _, o := range ops3 {
		if strings.HasPrefix(lx.src[lx.pos:], o) {
			lx.pos += len(o)
			return tok{k: "op", s: o, line: lx.line}, nil
		}
	}
	lx.pos++
	return tok{k: "op", s: string(c), line: lx.line}, nil
}

// ---------- parser ----------

type parser struct {
	toks []tok
	p    int
	file string
}

func (p *parser) peek() tok { return p.toks[p.p] }
func (p *parser) adv() tok {
	t := p.toks[p.p]
	if p.p < len(p.toks)-1 {
		p.p++
	}
	return t
}
func (p *parser) isOp(s string) bool { t := p.peek(); return t.k == "op" && t.s == s }
func (p *parser) isId(s string) bool { t := p.peek(); return t.k == "id" && t.s == s }
func (p *parser) errf(f string, a ...interface{}) error {
	return fmt.Errorf("%s:%d: %s", p.file, p.peek().line, fmt.Sprintf(f, a...))
}
func (p *parser) expectOp(s string) error {
	if !p.isOp(s) {
		return p.errf("expected %q, found %q", s, p.peek().s)
	}
	p.adv()
	return nil
}

var binPrec = map[string]int{
	"<==>": 1, "==>": 2, "||": 3, "&&": 4,
	"==": 5, "!=": 5, "<": 5, "<=": 5, ">": 5, ">=": 5,
	"+": 6, "-": 6, "|": 6, "^": 6,
	"*": 7, "/": 7, "%": 7, "<<": 7, ">>": 7, "&": 7, "&^": 7,
}

func (p *parser) parseExpr(minPrec int) (Expr, error) {
	x, err := p.parseUnary()
	if err != nil {
		return nil, err
	}
	for {
		t := p.peek()
		if t.k != "op" {
			return x, nil
		}
		prec, ok := binPrec[t.s]
		if !ok || prec < minPrec {
			return x, nil
		}
		p.adv()
		next := prec + 1
		if t.s == "==>" { // right assoc
			next = prec
		}
		y, err := p.parseExpr(next)
		if err != nil {
			return nil, err
		}
		x = EBinary{t.s, x, y}
	}
}

func (p *parser) parseUnary() (Expr, error) {
	if p.isOp("!") || p.isOp("-") || p.isOp("*") || p.isOp("&") {
		op := p.adv().s
		x, err := p.parseUnary()
		if err != nil {
			return nil, err
		}
		return EUnary{op, x}, nil
	}
	return p.parsePostfix()
}

func (p *parser) parseTypeText() (string, error) {
	// type := [ "[]" | "*" ]* ident [ "." ident ]  |  "quoted Go type" (function types and other shapes)
	var sb strings.Builder
	if p.peek().k == "str" {
		return p.adv().s, nil
	}
	for {
		if p.isOp("[") {
			p.adv()
			if p.peek().k == "int" {
				sb.WriteString("[" + p.adv().s + "]")
				if err := p.expectOp("]"); err != nil {
					return "", err
				}
				continue
			}
			if err := p.expectOp("]"); err != nil {
				return "", err
			}
			sb.WriteString("[]")
		} else if p.isOp("*") {
			p.adv()
			sb.WriteString("*")
		} else {
			break
		}
	}
	if p.peek().k != "id" {
		return "", p.errf("expected type name, found %q", p.peek().s)
	}
	if p.isId("map") && p.toks[p.p+1].k == "op" && p.toks[p.p+1].s == "[" {
		p.adv()
		p.adv()
		kt, err := p.parseTypeText()
		if err != nil {
			return "", err
		}
		if err := p.expectOp("]"); err != nil {
			return "", err
		}
		vt, err := p.parseTypeText()
		if err != nil {
			return "", err
		}
		return sb.String() + "map[" + kt + "]" + vt, nil
	}
	sb.WriteString(p.adv().s)
	if p.isOp(".") {
		p.adv()
		sb.WriteString("." + p.adv().s)
	}
	return sb.String(), nil
}

func (p *parser) parseBinders(stop string) ([]Binder, error) {
	// name[, name] type [, name type]* until stop op
	var bs []Binder
	for !p.isOp(stop) {
		var names []string
		for {
			if p.peek().k != "id" {
				return nil, p.errf("expected binder name, found %q", p.peek().s)
			}
			names = append(names, p.adv().s)
			if p.isOp(",") {
				p.adv()
				continue
			}
			break
		}
		ty, err := p.parseTypeText()
		if err != nil {
			return nil, err
		}
		for _, n := range names {
			bs = append(bs, Binder{n, ty})
		}
		if p.isOp(",") {
			p.adv()
		}
		if p.isOp("{") && stop == "::" {
			break
		}
	}
	return bs, nil
}

func (p *parser) parsePostfix() (Expr, error) {
	x, err := p.parsePrimary()
	if err != nil {
		return nil, err
	}
	for {
		switch {
		case p.isOp("."):
			p.adv()
			if p.peek().k != "id" {
				return nil, p.errf("expected field name")
			}
			name := p.adv().s
			if p.isOp("(") {
				p.adv()
				var args []Expr
				for !p.isOp(")") {
					a, err := p.parseExpr(0)
					if err != nil {
						return nil, err
					}
					args = append(args, a)
					if p.isOp(",") {
						p.adv()
					}
				}
				p.adv()
				x = EMethod{x, name, args}
			} else {
				x = EField{x, name}
			}
		case p.isOp("["):
			p.adv()
			var lo, hi Expr
			if !p.isOp(":") {
				lo, err = p.parseExpr(0)
				if err != nil {
					return nil, err
				}
			}
			if p.isOp(":") {
				p.adv()
				if !p.isOp("]") {
					hi, err = p.parseExpr(0)
					if err != nil {
						return nil, err
					}
				}
				if err := p.expectOp("]"); err != nil {
					return nil, err
				}
				x = ESlice{x, lo, hi}
			} else {
				if err := p.expectOp("]"); err != nil {
					return nil, err
				}
				x = EIndex{x, lo}
			}
		default:
			return x, nil
		}
	}
}

func (p *parser) parsePrimary() (Expr, error) {
	t := p.peek()
	switch t.k {
	case "int":
		p.adv()
		v, ok := new(big.Int).SetString(t.s, 0)
		if !ok {
			return nil, p.errf("bad integer %q", t.s)
		}
		return EInt{v}, nil
	case "str":
		p.adv()
		return EStr{t.s}, nil
	case "at":
		p.adv()
		return EAt{t.s}, nil
	case "raw":
		p.adv()
		// `Sort| text`
		i := strings.Index(t.s, "|")
		if i < 0 {
			return nil, p.errf("raw SMT needs `Sort| text`")
		}
		return ERaw{strings.TrimSpace(t.s[:i]), strings.TrimSpace(t.s[i+1:])}, nil
	case "op":
		if t.s == "(" {
			p.adv()
			x, err := p.parseExpr(0)
			if err != nil {
				return nil, err
			}
			if err := p.expectOp(")"); err != nil {
				return nil, err
			}
			return x, nil
		}
	case "id":
		switch t.s {
		case "true", "false":
			p.adv()
			return EBool{t.s == "true"}, nil
		case "nil":
			p.adv()
			return ENil{}, nil
		case "forall", "exists":
			p.adv()
			bs, err := p.parseBinders("::")
			if err != nil {
				return nil, err
			}
			var trigs [][]Expr
			for p.isOp("{") {
				p.adv()
				var tr []Expr
				for {
					e, err := p.parseExpr(0)
					if err != nil {
						return nil, err
					}
					tr = append(tr, e)
					if p.isOp(",") {
						p.adv()
						continue
					}
					break
				}
				if err := p.expectOp("}"); err != nil {
					return nil, err
				}
				trigs = append(trigs, tr)
			}
			if err := p.expectOp("::"); err != nil {
				return nil, err
			}
			body, err := p.parseExpr(0)
			if err != nil {
				return nil, err
			}
			return EQuant{t.s == "forall", bs, trigs, body}, nil
		case "old", "pre":
			if p.toks[p.p+1].k == "op" && p.toks[p.p+1].s == "(" {
				p.adv()
				p.adv()
				x, err := p.parseExpr(0)
				if err != nil {
					return nil, err
				}
				if err := p.expectOp(")"); err != nil {
					return nil, err
				}
				return EOld{t.s, x}, nil
			}
		case "if":
			p.adv()
			c, err := p.parseExpr(0)
			if err != nil {
				return nil, err
			}
			if !p.isId("then") {
				return nil, p.errf("expected then")
			}
			p.adv()
			a, err := p.parseExpr(0)
			if err != nil {
				return nil, err
			}
			if !p.isId("else") {
				return nil, p.errf("expected else")
			}
			p.adv()
			b, err := p.parseExpr(0)
			if err != nil {
				return nil, err
			}
			return EIte{c, a, b}, nil
		}
		p.adv()
		name := t.s
		// qualified name pkg.Func( or pkg.Const handled as EField on EIdent; calls:
		if p.isOp(".") && p.toks[p.p+1].k == "id" && p.toks[p.p+2].k == "op" && p.toks[p.p+2].s == "(" && isPkgQual(name) {
			p.adv()
			name = name + "." + p.adv().s
		}
		if p.isOp("(") {
			p.adv()
			var args []Expr
			for !p.isOp(")") {
				a, err := p.parseExpr(0)
				if err != nil {
					return nil, err
				}
				args = append(args, a)
				if p.isOp(",") {
					p.adv()
				} else if !p.isOp(")") {
					return nil, p.errf("expected , or ) in call, found %q", p.peek().s)
				}
			}
			p.adv()
			return ECall{name, args}, nil
		}
		return EIdent{name}, nil
	}
	return nil, p.errf("unexpected token %q", t.s)
}

// package qualifiers allowed in call position (extern pure library functions)
var pkgQuals = map[string]bool{"strings": true, "utf8": true, "unicode": true, "semver": true, "module": true, "path": true, "filepath": true, "bytes": true, "strconv": true, "tlog": true, "note": true, "sort": true, "version": true, "modfile": true, "lazyregexp": true, "base64": true, "sha256": true, "binary": true, "ed25519": true, "os": true, "fmt": true, "errors": true, "io": true, "time": true}

func isPkgQual(s string) bool { return pkgQuals[s] }

// ---------- file level ----------

var itemKeywords = map[string]bool{"func": true, "iface": true, "extern": true, "spec": true, "lemma": true, "axiom": true, "smt": true, "global": true, "ghost": true}

// extractContractText returns the //@ payload of a file with line numbers kept
// (non-contract lines become empty lines).
func extractContractText(src string) string {
	var sb strings.Builder
	for _, ln := range strings.Split(src, "\n") {
		t := strings.TrimLeft(ln, " \t")
		if strings.HasPrefix(t, "//@") {
			sb.WriteString(strings.TrimPrefix(t, "//@"))
		}
		sb.WriteString("\n")
	}
	return sb.String()
}

func parseContractFile(path string) (*ContractFile, error) {
	b, err := os.ReadFile(path)
	if err != nil {
		return nil, err
	}
	return parseContractSource(path, string(b))
}

func parseContractSource(path, src string) (*ContractFile, error) {
	text := extractContractText(src)
	toks, err := lexAll(path, text, 1)
	if err != nil {
		return nil, err
	}
	p := &parser{toks: toks, file: path}
	cf := &ContractFile{Path: path}
	for p.peek().k != "eof" {
		t := p.peek()
		if t.k != "id" || !itemKeywords[t.s] {
			return nil, p.errf("expected item keyword (func/iface/extern/spec/lemma/axiom/smt/global), found %q", t.s)
		}
		switch t.s {
		case "func", "iface", "extern":
			fc, err := p.parseFuncContract()
			if err != nil {
				return nil, err
			}
			fc.File = path
			cf.Funcs = append(cf.Funcs, fc)
		case "spec":
			sf, err := p.parseSpec()
			if err != nil {
				return nil, err
			}
			sf.File = path
			cf.Specs = append(cf.Specs, sf)
		case "lemma", "axiom":
			lm, err := p.parseLemma()
			if err != nil {
				return nil, err
			}
			lm.File = path
			cf.Lemmas = append(cf.Lemmas, lm)
		case "ghost":
			// ghost comp NAME type : ghost state attached to object references
			p.adv()
			if !p.isId("comp") {
				return nil, p.errf("expected 'ghost comp NAME type'")
			}
			p.adv()
			name := p.adv().s
			ty, err := p.parseTypeText()
			if err != nil {
				return nil, err
			}
			cf.Ghosts = append(cf.Ghosts, &GhostComp{Name: name, Type: ty})
		case "smt":
			p.adv()
			if p.peek().k != "raw" {
				return nil, p.errf("smt item needs a `raw` block")
			}
			cf.RawSMT = append(cf.RawSMT, p.adv().s)
		case "global":
			p.adv()
			name := p.adv().s
			if err := p.expectOp(":"); err != nil {
				return nil, err
			}
			s := p.p
			e, err := p.parseExpr(0)
			if err != nil {
				return nil, err
			}
			cf.Globals = append(cf.Globals, &GlobalFact{Name: name, E: e, Text: p.textOf(s, p.p)})
		}
	}
	return cf, nil
}

func (p *parser) textOf(a, b int) string {
	var sb strings.Builder
	for i := a; i < b && i < len(p.toks); i++ {
		t := p.toks[i]
		if i > a {
			sb.WriteString(" ")
		}
		switch t.k {
		case "str":
			sb.WriteString(strconv.Quote(t.s))
		case "at":
			sb.WriteString("@" + t.s)
		case "raw":
			sb.WriteString("`" + t.s + "`")
		default:
			sb.WriteString(t.s)
		}
	}
	return sb.String()
}

var clauseKeywords = map[string]bool{"requires": true, "ensures": true, "modifies": true, "decreases": true, "pure": true,
	"mode": true, "props": true, "loop": true, "call": true, "trusted": true, "noovf": true, "invariant": true,
	"allocates": true, "autoframe": true, "ensures_assumed": true, "requires_assumed": true, "hint": true, "uses": true, "panics_if": true, "terminates": true, "opaque": true, "let": true, "mathints": true, "funcparam": true}

func (p *parser) atItemEnd() bool {
	t := p.peek()
	return t.k == "eof" || t.k == "id" && itemKeywords[t.s]
}

// parseFuncKey parses e.g.  parseInt | (*File).AddRetract | ByVersion.Less | CheckPath$1 | strings.HasPrefix
func (p *parser) parseFuncKey() (string, error) {
	var sb strings.Builder
	if p.isOp("(") {
		p.adv()
		sb.WriteString("(")
		if p.isOp("*") {
			p.adv()
			sb.WriteString("*")
		}
		sb.WriteString(p.adv().s)
		for p.isOp(".") {
			p.adv()
			sb.WriteString("." + p.adv().s)
		}
		if err := p.expectOp(")"); err != nil {
			return "", err
		}
		sb.WriteString(")")
	} else {
		if p.peek().k != "id" {
			return "", p.errf("expected function name")
		}
		sb.WriteString(p.adv().s)
	}
	for p.isOp(".") || p.isOp("/") {
		sb.WriteString(p.adv().s)
		sb.WriteString(p.adv().s)
	}
	return sb.String(), nil
}

func (p *parser) parseClauseExpr(kind string) (*Clause, error) {
	c := &Clause{Kind: kind, Site: -1}
	// optional [tag,tag] and optional label "name:"
	if p.isOp("[") {
		p.adv()
		for !p.isOp("]") {
			s := p.adv().s
			if s == "internal" {
				// a postcondition about the function's own locals: proved on the body, not offered to callers
				c.Internal = true
			} else if strings.HasPrefix(s, "known") {
				// known=F-xxx  -> tokens: known = F - xxx ; simplified: known:ID as  known ID
				c.Known = p.adv().s
			} else {
				c.Props = append(c.Props, s)
			}
			if p.isOp(",") {
				p.adv()
			}
		}
		p.adv()
	}
	if p.peek().k == "id" && p.toks[p.p+1].k == "op" && p.toks[p.p+1].s == ":" && !(p.toks[p.p+2].k == "op" && p.toks[p.p+2].s == ":") {
		c.Name = p.adv().s
		p.adv()
	}
	s := p.p
	e, err := p.parseExpr(0)
	if err != nil {
		return nil, err
	}
	c.E = e
	c.Text = p.textOf(s, p.p)
	return c, nil
}

func (p *parser) parseFuncContract() (*FuncContract, error) {
	kind := p.adv().s
	fc := &FuncContract{Kind: kind, Loops: map[int]*LoopSpec{}, Line: p.peek().line}
	key, err := p.parseFuncKey()
	if err != nil {
		return nil, err
	}
	fc.Key = key
	// optional declared signature (mandatory for extern/iface)
	if p.isOp("(") {
		p.adv()
		bs, err := p.parseBinders(")")
		if err != nil {
			return nil, err
		}
		p.adv()
		fc.Params = bs
		if p.isOp("(") {
			p.adv()
			rs, err := p.parseBinders(")")
			if err != nil {
				return nil, err
			}
			p.adv()
			fc.Results = rs
		} else if !p.atItemEnd() && !(p.peek().k == "id" && clauseKeywords[p.peek().s]) {
			ty, err := p.parseTypeText()
			if err != nil {
				return nil, err
			}
			fc.Results = []Binder{{"result", ty}}
		}
	}
	var curLoop *LoopSpec
	for !p.atItemEnd() {
		t := p.peek()
		if t.k != "id" || !clauseKeywords[t.s] {
			return nil, p.errf("in contract of %s: expected clause keyword, found %q", fc.Key, t.s)
		}
		p.adv()
		switch t.s {
		case "requires":
			c, err := p.parseClauseExpr("requires")
			if err != nil {
				return nil, err
			}
			fc.Requires = append(fc.Requires, c)
			curLoop = nil
		case "requires_assumed":
			// a representation invariant the body relies on: assumed on entry, NOT checked at call sites, listed as
			// an assumption of every run that uses the function
			if p.peek().k != "str" {
				return nil, p.errf("requires_assumed needs a reason string")
			}
			reason := p.adv().s
			c, err := p.parseClauseExpr("requires")
			if err != nil {
				return nil, err
			}
			c.Assumed = reason
			fc.Requires = append(fc.Requires, c)
			curLoop = nil
		case "ensures":
			// "ensures site k ...": checked only at the k'th return statement in source order (k from 0); may mention
			// locals of the body and is never assumed at call sites
			site := -1
			if p.isId("site") {
				p.adv()
				k, err := strconv.Atoi(p.adv().s)
				if err != nil {
					return nil, p.errf("return ordinal expected after site")
				}
				site = k
			}
			c, err := p.parseClauseExpr("ensures")
			if err != nil {
				return nil, err
			}
			c.Site = site
			if site >= 0 {
				c.Internal = true
			}
			fc.Ensures = append(fc.Ensures, c)
			curLoop = nil
		case "ensures_assumed":
			if p.peek().k != "str" {
				return nil, p.errf("ensures_assumed needs a reason string")
			}
			reason := p.adv().s
			c, err := p.parseClauseExpr("ensures")
			if err != nil {
				return nil, err
			}
			c.Assumed = reason
			fc.Ensures = append(fc.Ensures, c)
			curLoop = nil
		case "panics_if":
			c, err := p.parseClauseExpr("panics_if")
			if err != nil {
				return nil, err
			}
			fc.PanicsIf = append(fc.PanicsIf, c)
		case "invariant":
			if curLoop == nil {
				return nil, p.errf("invariant outside loop")
			}
			c, err := p.parseClauseExpr("invariant")
			if err != nil {
				return nil, err
			}
			curLoop.Invariants = append(curLoop.Invariants, c)
		case "decreases":
			c, err := p.parseClauseExpr("decreases")
			if err != nil {
				return nil, err
			}
			if curLoop != nil {
				curLoop.Decreases = c
			} else {
				fc.Decr = c
			}
		case "loop":
			n := p.adv()
			ord, err := strconv.Atoi(n.s)
			if err != nil {
				return nil, p.errf("loop ordinal expected")
			}
			if err := p.expectOp(":"); err != nil {
				return nil, err
			}
			curLoop = &LoopSpec{Ord: ord}
			fc.Loops[ord] = curLoop
		case "modifies":
			curLoop = nil
			for {
				if p.isOp("*") && !(p.toks[p.p+1].k == "id" && !clauseKeywords[p.toks[p.p+1].s] && !itemKeywords[p.toks[p.p+1].s]) && !(p.toks[p.p+1].k == "op" && p.toks[p.p+1].s == "[") {
					p.adv()
					fc.ModAll = true
				} else if p.peek().k == "str" {
					fc.Modifies = append(fc.Modifies, "type:"+p.adv().s)
				} else {
					var sb strings.Builder
					for p.isOp("[") || p.isOp("]") || p.isOp("*") {
						sb.WriteString(p.adv().s)
					}
					sb.WriteString(p.adv().s)
					for p.isOp(".") {
						p.adv()
						sb.WriteString("." + p.adv().s)
					}
					fc.Modifies = append(fc.Modifies, sb.String())
				}
				if p.isOp(",") {
					p.adv()
					continue
				}
				break
			}
		case "pure":
			fc.Pure = true
		case "opaque":
			fc.Opaque = true
		case "noovf":
			fc.NoOvf = true
		case "mathints":
			if p.peek().k != "str" {
				return nil, p.errf("mathints needs a reason string")
			}
			fc.MathInts = p.adv().s
		case "allocates":
			fc.Allocates = true
		case "autoframe":
			fc.AutoFrame = true
		case "terminates":
			fc.Terminates = true
		case "mode":
			fc.Mode = p.adv().s
		case "props":
			for p.peek().k == "id" && !clauseKeywords[p.peek().s] && !itemKeywords[p.peek().s] {
				fc.Props = append(fc.Props, p.adv().s)
			}
		case "uses":
			for p.peek().k == "id" && !clauseKeywords[p.peek().s] && !itemKeywords[p.peek().s] {
				fc.Uses = append(fc.Uses, p.adv().s)
			}
		case "hint":
			// "hint e" is evaluated at entry; "hint exit e" at every return (may mention result)
			exit := false
			if p.isId("exit") {
				p.adv()
				exit = true
			}
			e, err := p.parseExpr(0)
			if err != nil {
				return nil, err
			}
			if exit {
				fc.ExitHints = append(fc.ExitHints, e)
			} else {
				fc.Hints = append(fc.Hints, e)
			}
		case "funcparam":
			// contract of calls through a function-typed parameter: funcparam NAME(params) (results) clauses... end
			sub := &FuncContract{Kind: "funcparam", Loops: map[int]*LoopSpec{}}
			sub.Key = p.adv().s
			if p.isOp("(") {
				p.adv()
				bs, err := p.parseBinders(")")
				if err != nil {
					return nil, err
				}
				p.adv()
				sub.Params = bs
				if p.isOp("(") {
					p.adv()
					rs, err := p.parseBinders(")")
					if err != nil {
						return nil, err
					}
					p.adv()
					sub.Results = rs
				}
			}
			for !p.isId("end") {
				if p.atItemEnd() {
					return nil, p.errf("funcparam %s: missing 'end'", sub.Key)
				}
				kw := p.adv().s
				switch kw {
				case "requires":
					c, err := p.parseClauseExpr("requires")
					if err != nil {
						return nil, err
					}
					sub.Requires = append(sub.Requires, c)
				case "ensures":
					c, err := p.parseClauseExpr("ensures")
					if err != nil {
						return nil, err
					}
					sub.Ensures = append(sub.Ensures, c)
				case "allocates":
					sub.Allocates = true
				case "pure":
					sub.Pure = true
				case "modifies":
					var sb strings.Builder
					sb.WriteString(p.adv().s)
					for p.isOp(".") {
						p.adv()
						sb.WriteString("." + p.adv().s)
					}
					sub.Modifies = append(sub.Modifies, sb.String())
				default:
					return nil, p.errf("funcparam %s: unexpected %q", sub.Key, kw)
				}
			}
			p.adv()
			if fc.FuncParams == nil {
				fc.FuncParams = map[string]*FuncContract{}
			}
			fc.FuncParams[sub.Key] = sub
		case "let":
			// let NAME = expr @after loop K
			name := p.adv().s
			lty := ""
			if !p.isOp("=") {
				t, err := p.parseTypeText()
				if err != nil {
					return nil, err
				}
				lty = t
			}
			if err := p.expectOp("="); err != nil {
				return nil, err
			}
			st := p.p
			e, err := p.parseExpr(0)
			if err != nil {
				return nil, err
			}
			txt := p.textOf(st, p.p)
			if p.peek().k != "at" || (p.peek().s != "after" && p.peek().s != "before") {
				return nil, p.errf("let needs @after loop K or @before loop K")
			}
			before := p.peek().s == "before"
			p.adv()
			if !p.isId("loop") {
				return nil, p.errf("let needs @after loop K")
			}
			p.adv()
			ord, err := strconv.Atoi(p.adv().s)
			if err != nil {
				return nil, p.errf("loop ordinal expected")
			}
			fc.Lets = append(fc.Lets, &LetSpec{Name: name, E: e, Loop: ord, Text: txt, Before: before, Type: lty})
		case "trusted":
			if p.peek().k != "str" {
				return nil, p.errf("trusted needs a reason string")
			}
			fc.Trusted = p.adv().s
		case "call":
			callee, err := p.parseFuncKey()
			if err != nil {
				return nil, err
			}
			cs := &CallSpec{Callee: callee, Nth: -1}
			// "call f site k requires e": only the k'th call of f in source order (k from 0)
			if p.isId("site") {
				p.adv()
				k, err := strconv.Atoi(p.adv().s)
				if err != nil {
					return nil, p.errf("call site ordinal expected after site")
				}
				cs.Nth = k
			}
			// "call f [site k] assumes "reason" e": e is assumed where the call stands (an explicit, listed assumption
			// about values produced by code that is abstracted, so that the callee's preconditions can be checked)
			if p.isId("assumes") {
				p.adv()
				if p.peek().k != "str" {
					return nil, p.errf("call ... assumes needs a reason string")
				}
				cs.Assumed = p.adv().s
			} else if !p.isId("requires") {
				return nil, p.errf("call clause needs requires or assumes")
			} else {
				p.adv()
			}
			c, err := p.parseClauseExpr("callreq")
			if err != nil {
				return nil, err
			}
			cs.Req = c
			fc.Calls = append(fc.Calls, cs)
		}
	}
	return fc, nil
}

func (p *parser) parseSpec() (*SpecFunc, error) {
	p.adv() // spec
	sf := &SpecFunc{Line: p.peek().line}
	s := p.p
	if p.isId("macro") {
		p.adv()
		sf.Macro = true
	}
	if p.isId("opaque") {
		p.adv()
		sf.Opaque = true
	}
	if p.isId("func") {
		p.adv()
	}
	sf.Name = p.adv().s
	if err := p.expectOp("("); err != nil {
		return nil, err
	}
	bs, err := p.parseBinders(")")
	if err != nil {
		return nil, err
	}
	p.adv()
	sf.Params = bs
	ty, err := p.parseTypeText()
	if err != nil {
		return nil, err
	}
	sf.Result = ty
	if p.isId("decreases") {
		p.adv()
		d, err := p.parseExpr(0)
		if err != nil {
			return nil, err
		}
		sf.Decr = d
	}
	if p.isId("uses") {
		p.adv()
		for p.peek().k == "id" && !p.isOp("=") {
			sf.Uses = append(sf.Uses, p.adv().s)
		}
	}
	if p.isOp("=") {
		p.adv()
		e, err := p.parseExpr(0)
		if err != nil {
			return nil, err
		}
		sf.Body = e
	}
	sf.Text = p.textOf(s, p.p)
	return sf, nil
}

func (p *parser) parseLemma() (*Lemma, error) {
	kw := p.adv().s
	lm := &Lemma{Axiom: kw == "axiom", Line: p.peek().line}
	s := p.p
	lm.Name = p.adv().s
	if p.isOp("(") {
		p.adv()
		bs, err := p.parseBinders(")")
		if err != nil {
			return nil, err
		}
		p.adv()
		lm.Params = bs
	}
	for !p.atItemEnd() {
		t := p.peek()
		if t.k != "id" {
			return nil, p.errf("in lemma %s: unexpected %q", lm.Name, t.s)
		}
		p.adv()
		switch t.s {
		case "requires":
			c, err := p.parseClauseExpr("requires")
			if err != nil {
				return nil, err
			}
			lm.Requires = append(lm.Requires, c)
		case "ensures":
			c, err := p.parseClauseExpr("ensures")
			if err != nil {
				return nil, err
			}
			lm.Ensures = append(lm.Ensures, c)
		case "induction":
			// induction <measure expression>: strong induction on a non-negative integer measure
			e, err := p.parseExpr(0)
			if err != nil {
				return nil, err
			}
			lm.Measure = e
			lm.Induct = "measure"
		case "props":
			for p.peek().k == "id" && !itemKeywords[p.peek().s] && !lemmaKw[p.peek().s] {
				lm.Props = append(lm.Props, p.adv().s)
			}
		case "uses":
			for p.peek().k == "id" && !itemKeywords[p.peek().s] && !lemmaKw[p.peek().s] {
				lm.Uses = append(lm.Uses, p.adv().s)
			}
		case "reason":
			lm.Reason = p.adv().s
		case "anchor":
			// anchor "file" "text": the axiom describes source text (a regular expression, a table) that the
			// engine does not interpret; it is only valid while that file still contains exactly this text
			if p.peek().k != "str" {
				return nil, p.errf("anchor needs a file name and a text")
			}
			file := p.adv().s
			if p.peek().k != "str" {
				return nil, p.errf("anchor needs a file name and a text")
			}
			lm.Anchors = append(lm.Anchors, [2]string{file, p.adv().s})
		case "mode":
			lm.Mode = p.adv().s
		case "trigger":
			var tr []Expr
			for {
				e, err := p.parseExpr(0)
				if err != nil {
					return nil, err
				}
				tr = append(tr, e)
				if p.isOp(",") {
					p.adv()
					continue
				}
				break
			}
			lm.Triggers = append(lm.Triggers, tr)
		case "hint":
			e, err := p.parseExpr(0)
			if err != nil {
				return nil, err
			}
			lm.Hint = append(lm.Hint, e)
		default:
			return nil, p.errf("in lemma %s: unknown clause %q", lm.Name, t.s)
		}
	}
	lm.Text = p.textOf(s, p.p)
	if lm.Axiom && lm.Reason == "" {
		return nil, p.errf("axiom %s needs a reason \"class: justification\"", lm.Name)
	}
	return lm, nil
}

var lemmaKw = map[string]bool{"requires": true, "ensures": true, "induction": true, "props": true, "uses": true, "reason": true, "trigger": true, "mode": true, "hint": true, "anchor": true}
