package main

// VC assembly and solver racing.

import (
	"regexp"
	"bytes"
	"context"
	"fmt"
	"golang.org/x/tools/go/ssa"
	"os"
	"os/exec"
	"path/filepath"
	"strings"
	"sync"
	"sync/atomic"
	"time"
)

const extraPrelude = `
(declare-fun hintI (Int) Bool)
(declare-fun hintS (Str) Bool)
(declare-fun hintB (Bool) Bool)
(define-fun gdiv ((a Int) (b Int)) Int (ite (>= a 0) (ite (> b 0) (div a b) (- (div a (- b)))) (ite (> b 0) (- (div (- a) b)) (div (- a) (- b)))))
(define-fun gmod ((a Int) (b Int)) Int (- a (* b (gdiv a b))))
(declare-fun srune (Int) Str)
(assert (forall ((r Int)) (! (=> (and (<= 0 r) (< r 128)) (= (srune r) (schr r))) :pattern ((srune r)))))
(assert (forall ((r Int)) (! (and (<= 1 (slen (srune r))) (<= (slen (srune r)) 4)) :pattern ((srune r)))))
(assert (forall ((r Int) (k Int)) (! (=> (and (>= r 128) (<= 0 k) (< k (slen (srune r)))) (>= (sat (srune r) k) 128)) :pattern ((sat (srune r) k)))))
(declare-fun str_of_bytes ((Array Int Int) Int Int) Str)
(assert (forall ((a (Array Int Int)) (o Int) (n Int)) (! (=> (<= 0 n) (= (slen (str_of_bytes a o n)) n)) :pattern ((str_of_bytes a o n)))))
(assert (forall ((a (Array Int Int)) (o Int) (n Int) (k Int)) (! (=> (and (<= 0 k) (< k n) (<= 0 (select a (eidx o k))) (<= (select a (eidx o k)) 255)) (= (sat (str_of_bytes a o n) k) (select a (eidx o k)))) :pattern ((sat (str_of_bytes a o n) k)))))
(assert (forall ((a (Array Int Int)) (o Int) (n Int) (j Int) (m Int)) (! (=> (and (<= 0 j) (<= j m) (<= m n)) (= (ssub (str_of_bytes a o n) j m) (str_of_bytes a (+ o j) (- m j)))) :pattern ((ssub (str_of_bytes a o n) j m)))))
(declare-fun bytes_of_str (Str) (Array Int Int))
(assert (forall ((s Str) (k Int)) (! (=> (and (<= 0 k) (< k (slen s))) (= (select (bytes_of_str s) k) (sat s k))) :pattern ((select (bytes_of_str s) k)))))
; string([]byte(s)) == s: follows from the two element laws and extensionality of Str; stated directly because
; the extensionality witness is only produced on demand
(assert (forall ((s Str)) (! (= (str_of_bytes (bytes_of_str s) 0 (slen s)) s) :pattern ((str_of_bytes (bytes_of_str s) 0 (slen s))))))
(declare-fun runeat (Str Int) Int)
(declare-fun runesz (Str Int) Int)
(assert (forall ((s Str) (i Int)) (! (=> (and (<= 0 i) (< i (slen s))) (and (<= 1 (runesz s i)) (<= (runesz s i) 4) (<= (+ i (runesz s i)) (slen s)) (<= 0 (runeat s i)) (<= (runeat s i) 1114111)
    (=> (< (sat s i) 128) (and (= (runeat s i) (sat s i)) (= (runesz s i) 1)))
    (=> (>= (sat s i) 128) (>= (runeat s i) 128)))) :pattern ((runesz s i)) :pattern ((runeat s i)))))
(assert (forall ((s Str) (i Int) (k Int)) (! (=> (and (<= 0 i) (< i (slen s)) (<= i k) (< k (+ i (runesz s i))) (>= (sat s i) 128)) (>= (sat s k) 128)) :pattern ((runesz s i) (sat s k)))))
`

type VC struct {
	Name     string
	Clause   string
	Props    []string
	Known    string
	Cover    bool
	Text     string // full SMT-LIB
	Func     string
	Lemma    bool
	Result   string // unsat, sat, unknown, timeout, error
	Backend  string
	Ms       int64
	Output   string
	AllRes   map[string]string
	fn       *ssa.Function
	fc       *FuncContract
	ModelQ   string
	ModelOut string
}

func (P *Prog) header() string {
	var sb strings.Builder
	sb.WriteString(preludeSMT)
	for _, d := range P.sorts.decls {
		sb.WriteString(d + "\n")
	}
	sb.WriteString(extraPrelude)
	for _, k := range sortedKeys(P.sorts.zarr) {
		sb.WriteString(P.sorts.zarr[k] + "\n")
	}
	for _, r := range P.rawSMT {
		sb.WriteString(r + "\n")
	}
	return sb.String()
}

// lemmaAxiomsFor returns axiom texts for the named lemmas.
func (P *Prog) lemmaAxiomsFor(names []string) ([]string, error) {
	var out []string
	for _, n := range names {
		lm, ok := P.lemmas[n]
		if !ok {
			return nil, fmt.Errorf("unknown lemma %q in uses", n)
		}
		ax, err := P.lemmaAxiom(lm)
		if err != nil {
			return nil, err
		}
		out = append(out, ax)
	}
	return out, nil
}

func (fx *FnCtx) buildVCs() ([]*VC, error) {
	P := fx.P
	var lemmaAx []string
	if len(fx.fc.Uses) > 0 {
		la, err := P.lemmaAxiomsFor(fx.fc.Uses)
		if err != nil {
			return nil, err
		}
		lemmaAx = la
	}
	exclude := map[string]bool{}
	if pf := P.pureFuncFor(fx.fc, fx.fn); pf != nil {
		for _, s := range pf.sym {
			exclude[s] = true
		}
	}
	var vcs []*VC
	for k, it := range fx.items {
		if it.kind != itOblig {
			continue
		}
		var body strings.Builder
		for j := 0; j < k; j++ {
			a := fx.items[j]
			if a.cover {
				continue
			}
			if it.cover && !it.coverAll && a.block != -1 {
				continue
			}
			if it.coverAll && a.kind == itOblig {
				continue // only what is assumed, not what is (separately) being proved
			}
			if !it.coverAll && !(a.block == -1 || a.block == it.block || (it.block >= 0 && fx.anc[it.block][a.block])) {
				continue
			}
			// postconditions at the same return are proved independently of each other
			if a.kind == itOblig && a.block == it.block && strings.Contains(a.name, "#post.") && strings.Contains(it.name, "#post.") {
				continue
			}
			body.WriteString("(assert " + a.t.S + ")\n")
		}
		goal := "(assert (not " + it.t.S + "))\n"
		text := P.assemble(fx.declList, lemmaAx, body.String()+goal, exclude)
		vc := &VC{Name: it.name, Clause: it.clause, Props: it.props, Known: it.known, Cover: it.cover, Text: text, Func: fx.key, fn: fx.fn, fc: fx.fc}
		if ps, ok := replayParams(fx.fn); ok {
			vc.ModelQ = modelQuery(ps)
		}
		vcs = append(vcs, vc)
	}
	return vcs, nil
}

// assemble builds the complete SMT-LIB text.
func (P *Prog) assemble(decls []string, lemmaAx []string, body string, excludeAx map[string]bool) string {
	var sb strings.Builder
	sb.WriteString(P.header())
	mods := P.closure(body+strings.Join(decls, "\n"), lemmaAx)
	for _, m := range mods {
		sb.WriteString(m.decl + "\n")
	}
	for _, m := range mods {
		if excludeAx[m.name] {
			continue
		}
		for _, a := range m.axioms {
			sb.WriteString(a + "\n")
		}
	}
	modDecl := map[string]bool{}
	for _, m := range mods {
		modDecl[m.decl] = true
	}
	for _, d := range decls {
		// a package-level variable read both by the function and by an axiom in use is declared once
		if modDecl[d] {
			continue
		}
		sb.WriteString(d + "\n")
	}
	for _, a := range lemmaAx {
		sb.WriteString(a + "\n")
	}
	sb.WriteString(body)
	sb.WriteString("(check-sat)\n")
	return pruneDatatypes(sb.String())
}

var dtDeclRE = regexp.MustCompile(`^\(declare-datatypes \(\((S_[A-Za-z0-9_$]+) 0\)\)`)

// pruneDatatypes drops struct datatype declarations that nothing in the query refers to, so that the text of a
// verification condition does not depend on which other functions were processed before it (the set of struct
// sorts known to the program grows as functions are visited).
func pruneDatatypes(text string) string {
	lines := strings.Split(text, "\n")
	// zero-array constants (declaration plus defining axiom) that nothing else mentions
	{
		keep := lines[:0:0]
		for i := 0; i < len(lines); i++ {
			l := lines[i]
			if strings.HasPrefix(l, "(declare-const zarr_") {
				name := strings.Fields(l)[1]
				used := false
				for j, m := range lines {
					if j == i || (j == i+1 && strings.HasPrefix(m, "(assert (forall ((k Int)) (! (= (select "+name+" k)")) {
						continue
					}
					if strings.Contains(m, name) {
						used = true
						break
					}
				}
				if !used {
					if i+1 < len(lines) && strings.HasPrefix(lines[i+1], "(assert (forall ((k Int)) (! (= (select "+name+" k)") {
						i++
					}
					continue
				}
			}
			keep = append(keep, l)
		}
		lines = keep
	}
	type dt struct {
		idx  int
		name string
	}
	var dts []dt
	for i, l := range lines {
		if m := dtDeclRE.FindStringSubmatch(l); m != nil {
			dts = append(dts, dt{i, m[1]})
		}
	}
	if len(dts) == 0 {
		return text
	}
	drop := map[int]bool{}
	for changed := true; changed; {
		changed = false
		for _, d := range dts {
			if drop[d.idx] {
				continue
			}
			used := false
			for i, l := range lines {
				if i == d.idx || drop[i] {
					continue
				}
				if strings.Contains(l, d.name) {
					used = true
					break
				}
			}
			if !used {
				drop[d.idx] = true
				changed = true
			}
		}
	}
	if len(drop) == 0 {
		return text
	}
	out := lines[:0:0]
	for i, l := range lines {
		if !drop[i] {
			out = append(out, l)
		}
	}
	return strings.Join(out, "\n")
}

type solverSpec struct {
	name string
	args func(file string, timeoutS int, seed int) []string
}

var noRetry = false

var solvers = []solverSpec{
	{"z3", func(f string, t int, seed int) []string {
		return []string{"z3", fmt.Sprintf("-T:%d", t), fmt.Sprintf("smt.random_seed=%d", seed), f}
	}},
	{"z3-new", func(f string, t int, seed int) []string {
		return []string{"z3-new", fmt.Sprintf("-T:%d", t), fmt.Sprintf("smt.random_seed=%d", seed), f}
	}},
	{"cvc5", func(f string, t int, seed int) []string {
		return []string{"cvc5", fmt.Sprintf("--tlimit=%d", t*1000), fmt.Sprintf("--seed=%d", seed), "--full-saturate-quant", f}
	}},
}

func runSolver(ctx context.Context, s solverSpec, file string, timeoutS int, seed int) (string, string) {
	a := s.args(file, timeoutS, seed)
	cctx, cancel := context.WithTimeout(ctx, time.Duration(timeoutS+2)*time.Second)
	defer cancel()
	cmd := exec.CommandContext(cctx, a[0], a[1:]...)
	var out bytes.Buffer
	cmd.Stdout = &out
	cmd.Stderr = &out
	_ = cmd.Run()
	o := out.String()
	first := ""
	for _, ln := range strings.Split(o, "\n") {
		ln = strings.TrimSpace(ln)
		if ln == "unsat" || ln == "sat" || ln == "unknown" {
			first = ln
			break
		}
		if strings.HasPrefix(ln, "(error") {
			first = "error"
			break
		}
	}
	switch first {
	case "unsat", "sat", "unknown":
		return first, o
	}
	if strings.Contains(o, "timeout") || cctx.Err() != nil {
		return "timeout", o
	}
	if first == "" {
		return "timeout", o
	}
	return "error", o
}

// every solver input file gets its own name, whatever the obligation is called
var vcFileSeq int64

// discharge runs one VC: quick pass on z3, then race the others.
func discharge(vc *VC, dir string, timeoutS int, model bool) {
	dischargeSeed(vc, dir, timeoutS, model, 0)
}

func dischargeSeed(vc *VC, dir string, timeoutS int, model bool, seed int) {
	file := filepath.Join(dir, fmt.Sprintf("%s.%d.smt2", sanitize(vc.Name), atomic.AddInt64(&vcFileSeq, 1)))
	text := vc.Text
	if model {
		if vc.ModelQ != "" {
			text += vc.ModelQ
		} else {
			text += "(get-model)\n"
		}
	}
	if err := os.WriteFile(file, []byte(text), 0o644); err != nil {
		vc.Result = "error"
		vc.Output = err.Error()
		return
	}
	vc.AllRes = map[string]string{}
	start := time.Now()
	// phase 2: race all three with full timeout
	ctx, cancel := context.WithCancel(context.Background())
	defer cancel()
	type res struct{ s, r, o string }
	ch := make(chan res, len(solvers))
	for _, s := range solvers {
		s := s
		go func() {
			r, o := runSolver(ctx, s, file, timeoutS, seed)
			ch <- res{s.name, r, o}
		}()
	}
	best := res{"", vc.Result, vc.Output}
	for range solvers {
		x := <-ch
		if ctx.Err() == nil {
			vc.AllRes[x.s] = x.r
		}
		if (x.r == "sat" || x.r == "unknown") && strings.Contains(x.o, "((") && (vc.ModelOut == "" || x.r == "sat") {
			vc.ModelOut = x.o
		}
		if x.r == "unsat" {
			best = x
			cancel()
			break
		}
		if x.r == "sat" && best.r != "sat" {
			best = x
		} else if best.r == "" || (best.r == "error" && x.r != "error") || (best.r == "timeout" && x.r == "unknown") {
			best = x
		}
	}
	vc.Result, vc.Backend, vc.Output = best.r, best.s, best.o
	if vc.Result == "unsat" {
		for s, r := range vc.AllRes {
			if r == "sat" {
				vc.Result = "disagree"
				vc.Output += "\nSOLVER DISAGREEMENT: " + s + " says sat"
			}
		}
	}
	vc.Ms = time.Since(start).Milliseconds()
}

func dischargeAll(vcs []*VC, dir string, timeoutS int, workers int) {
	var wg sync.WaitGroup
	ch := make(chan *VC)
	for i := 0; i < workers; i++ {
		wg.Add(1)
		go func() {
			defer wg.Done()
			for vc := range ch {
				if vc.Cover {
					dischargeCover(vc, dir)
				} else if vc.Known != "" && timeoutS > 6 {
					discharge(vc, dir, 6, true)
				} else {
					discharge(vc, dir, timeoutS, true)
				}
			}
		}()
	}
	for _, vc := range vcs {
		ch <- vc
	}
	close(ch)
	wg.Wait()
	// Second chance with other solver seeds for obligations that were not discharged: a proof found under any
	// seed is a proof; this only removes alarms caused by E-matching order and solver scheduling.  The retries run
	// in parallel (each obligation keeps its own seed sequence); at most retryCap obligations are retried so that
	// a tree on which many obligations genuinely fail is still reported quickly.
	if noRetry {
		return
	}
	const retryCap = 24
	var todo []*VC
	for _, vc := range vcs {
		if vc.Cover || vc.Known != "" || vc.Result == "unsat" || vc.Result == "vacuous" {
			continue
		}
		if len(todo) < retryCap {
			todo = append(todo, vc)
		}
	}
	if len(todo) == 0 {
		return
	}
	var wg2 sync.WaitGroup
	sem := make(chan struct{}, 5)
	for _, vc := range todo {
		wg2.Add(1)
		go func(vc *VC) {
			defer wg2.Done()
			sem <- struct{}{}
			defer func() { <-sem }()
			first := vc.Result
			for seed := 1; seed <= 2 && vc.Result != "unsat"; seed++ {
				keepModel := vc.ModelOut
				dischargeSeed(vc, dir, timeoutS, true, seed)
				if vc.ModelOut == "" {
					vc.ModelOut = keepModel
				}
				if vc.Result == "unsat" {
					vc.Backend += fmt.Sprintf(" (retry seed %d after %s)", seed, first)
				}
			}
		}(vc)
	}
	wg2.Wait()
}

// cover: the assumptions must NOT be refutable within a small budget.
func dischargeCover(vc *VC, dir string) {
	file := filepath.Join(dir, fmt.Sprintf("%s.%d.smt2", sanitize(vc.Name), atomic.AddInt64(&vcFileSeq, 1)))
	_ = os.WriteFile(file, []byte(vc.Text), 0o644)
	start := time.Now()
	r, o := runSolver(context.Background(), solvers[0], file, 2, 0)
	vc.Backend = "z3"
	if r != "unsat" && strings.HasPrefix(vc.Name, "cover.exit:") && len(solvers) > 1 {
		// the exit cover carries the whole body: give a second solver a chance to find a contradiction
		r, o = runSolver(context.Background(), solvers[1], file, 2, 0)
		vc.Backend = solvers[1].name
	}
	vc.Ms = time.Since(start).Milliseconds()
	vc.Output = o
	if r == "unsat" {
		vc.Result = "vacuous"
	} else {
		vc.Result = "unsat" // counts as discharged: assumptions not refuted
	}
}
