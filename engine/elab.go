package main

// Elaboration of contract expressions into SMT terms.

import (
	"fmt"
	"go/constant"
	"go/token"
	"go/types"
	"math/big"
	"strings"
)

type Val struct {
	T      Term
	GoT    types.Type // may be nil for pure spec values
	Aux    *Term      // contents array for slice-typed spec parameters
	DerefT types.Type // non-nil: T is a pointer to a captured variable of this type, read at each use
	Ghost  string     // non-empty: T is the ghost component of that name (indexed by object reference)
}

type Env struct {
	P         *Prog
	fx        *FnCtx
	st        *State
	old       *State
	pre       *State
	bound     map[string]Val
	results   []Val
	pos       token.Pos
	pkg       *types.Package
	loop      *loopInfo
	laxLocals bool // call clauses: see instr.go
	localsSt  *State // inside old(...): locals that have no value in the entry state denote their current value
	bv        bool // bv64 mode
	deps      map[string]bool
	fuelSelf  string // inside the body of this recursive spec function, self-calls use the bound fuel "ly"
	fuelAll   bool   // in lemma axioms every fueled call uses its own bound fuel variable ly<k>
	fuelCtr   *int
	fuelMap   map[string]string // application (without fuel) -> its bound fuel variable
	fuelNew   bool              // elaborating a trigger: new applications get new fuel variables
}

func (e *Env) clone() *Env {
	c := *e
	c.bound = map[string]Val{}
	for k, v := range e.bound {
		c.bound[k] = v
	}
	return &c
}

func (e *Env) errf(f string, a ...interface{}) error { return fmt.Errorf(f, a...) }

var basicTypes = map[string]types.Type{
	"int": types.Typ[types.Int], "int64": types.Typ[types.Int64], "int32": types.Typ[types.Int32],
	"uint": types.Typ[types.Uint], "uint64": types.Typ[types.Uint64], "uint32": types.Typ[types.Uint32],
	"uint8": types.Typ[types.Uint8], "byte": types.Typ[types.Uint8], "rune": types.Typ[types.Int32],
	"bool": types.Typ[types.Bool], "string": types.Typ[types.String], "error": types.Universe.Lookup("error").Type(), "any": types.Universe.Lookup("any").Type(),
	"uint16": types.Typ[types.Uint16], "int16": types.Typ[types.Int16], "int8": types.Typ[types.Int8],
}

// mathInt is the unbounded spec integer type
var mathInt = types.Typ[types.UntypedInt]

func (P *Prog) resolveType(pkg *types.Package, text string) (types.Type, error) {
	switch {
	case strings.HasPrefix(text, "[]"):
		t, err := P.resolveType(pkg, text[2:])
		if err != nil {
			return nil, err
		}
		return types.NewSlice(t), nil
	case strings.HasPrefix(text, "*"):
		t, err := P.resolveType(pkg, text[1:])
		if err != nil {
			return nil, err
		}
		return types.NewPointer(t), nil
	case strings.HasPrefix(text, "map["):
		// map[K]V: find the matching bracket
		d, i := 0, 3
		for ; i < len(text); i++ {
			if text[i] == '[' {
				d++
			} else if text[i] == ']' {
				d--
				if d == 0 {
					break
				}
			}
		}
		kt, err := P.resolveType(pkg, text[4:i])
		if err != nil {
			return nil, err
		}
		vt, err := P.resolveType(pkg, text[i+1:])
		if err != nil {
			return nil, err
		}
		return types.NewMap(kt, vt), nil
	case strings.HasPrefix(text, "["):
		i := strings.Index(text, "]")
		var n int64
		fmt.Sscanf(text[1:i], "%d", &n)
		t, err := P.resolveType(pkg, text[i+1:])
		if err != nil {
			return nil, err
		}
		return types.NewArray(t, n), nil
	}
	if text == "mathint" || text == "Int" {
		return mathInt, nil
	}
	if text == "struct{}" {
		return types.NewStruct(nil, nil), nil
	}
	if strings.HasSuffix(text, "Arr") && len(text) > 3 {
		// unbounded spec array of T: "<T>Arr"
		if t, err := P.resolveType(pkg, strings.TrimSuffix(text, "Arr")); err == nil {
			return types.NewArray(t, 1<<40), nil
		}
	}
	if t, ok := basicTypes[text]; ok {
		return t, nil
	}
	if i := strings.Index(text, "."); i >= 0 {
		q, n := text[:i], text[i+1:]
		for _, tp := range P.allTypesPkgs() {
			if tp.Name() == q {
				if o := tp.Scope().Lookup(n); o != nil {
					if tn, ok := o.(*types.TypeName); ok {
						return tn.Type(), nil
					}
				}
			}
		}
		return nil, fmt.Errorf("unknown type %s", text)
	}
	if pkg != nil {
		if o := pkg.Scope().Lookup(text); o != nil {
			if tn, ok := o.(*types.TypeName); ok {
				return tn.Type(), nil
			}
		}
		// a type declared inside a function body (must be the only one of that name in the package)
		var hit, inFn *types.TypeName
		n, nIn := 0, 0
		for _, pk := range P.pkgs {
			if pk.Types != pkg || pk.TypesInfo == nil {
				continue
			}
			for id, o := range pk.TypesInfo.Defs {
				if tn, ok := o.(*types.TypeName); ok && id.Name == text && tn.Parent() != pkg.Scope() {
					hit = tn
					n++
					if P.curTop != nil && P.curTop.Syntax() != nil && P.curTop.Syntax().Pos() <= tn.Pos() && tn.Pos() <= P.curTop.Syntax().End() {
						inFn = tn
						nIn++
					}
				}
			}
		}
		if nIn == 1 {
			return inFn.Type(), nil
		}
		if n == 1 {
			return hit.Type(), nil
		}
	}
	return nil, fmt.Errorf("unknown type %s", text)
}

func isString(t types.Type) bool {
	if t == nil {
		return false
	}
	b, ok := t.Underlying().(*types.Basic)
	return ok && b.Info()&types.IsString != 0
}
func isInteger(t types.Type) bool {
	if t == nil {
		return false
	}
	b, ok := t.Underlying().(*types.Basic)
	return ok && b.Info()&types.IsInteger != 0
}

func (env *Env) elabBool(e Expr) (Term, error) {
	v, err := env.elab(e)
	if err != nil {
		return Term{}, err
	}
	if v.T.Sort != "Bool" {
		return Term{}, fmt.Errorf("expected Bool, got %s in %s", v.T.Sort, v.T.S)
	}
	return v.T, nil
}

func (env *Env) elab(e Expr) (Val, error) {
	P := env.P
	switch x := e.(type) {
	case EInt:
		return Val{T: bigLit(x.V), GoT: mathInt}, nil
	case EBool:
		if x.V {
			return Val{T: tTrue}, nil
		}
		return Val{T: tFalse}, nil
	case EStr:
		return Val{T: P.strLit(x.V), GoT: types.Typ[types.String]}, nil
	case ENil:
		return Val{T: Term{"0", "Nil"}}, nil
	case ERaw:
		return env.elabRaw(x)
	case EAt:
		if env.fx == nil {
			return Val{}, fmt.Errorf("@%s outside function", x.Name)
		}
		return env.fx.ghostVar(env, x.Name)
	case EIdent:
		return env.elabIdent(x.Name)
	case EOld:
		c := *env
		if x.Kind == "old" {
			if env.old == nil {
				if env.fx == nil && env.st == nil {
					return env.elab(x.X) // pure context: no state
				}
				return Val{}, fmt.Errorf("old() not available here")
			}
			c.st = env.old
			if c.localsSt == nil {
				c.localsSt = env.st
			}
		} else {
			if env.pre == nil {
				return Val{}, fmt.Errorf("pre() only inside loop invariants")
			}
			c.st = env.pre
		}
		return c.elab(x.X)
	case EIte:
		c, err := env.elabBool(x.C)
		if err != nil {
			return Val{}, err
		}
		a, err := env.elab(x.A)
		if err != nil {
			return Val{}, err
		}
		b, err := env.elab(x.B)
		if err != nil {
			return Val{}, err
		}
		a, b = unifyNil(a, b)
		if a.T.Sort != b.T.Sort {
			return Val{}, fmt.Errorf("if-then-else branches differ: %s vs %s", a.T.Sort, b.T.Sort)
		}
		r := a
		r.T = ite(c, a.T, b.T)
		return r, nil
	case EUnary:
		if x.Op == "&" {
			// address of a local whose address is taken in the code (a heap cell in SSA)
			id, ok := x.X.(EIdent)
			if !ok || env.fx == nil {
				return Val{}, fmt.Errorf("& needs the name of a local variable")
			}
			return env.fx.addrOfLocal(env, id.Name)
		}
		v, err := env.elab(x.X)
		if err != nil {
			return Val{}, err
		}
		switch x.Op {
		case "!":
			if v.T.Sort != "Bool" {
				return Val{}, fmt.Errorf("! on %s", v.T.Sort)
			}
			return Val{T: not(v.T)}, nil
		case "-":
			return Val{T: app("Int", "-", v.T), GoT: mathInt}, nil
		case "*":
			if v.GoT == nil {
				return Val{}, fmt.Errorf("deref of untyped value")
			}
			if _, ok := v.GoT.Underlying().(*types.Pointer); !ok {
				return Val{}, fmt.Errorf("deref of non-pointer %s", v.GoT)
			}
			return env.derefVal(v)
		}
	case EBinary:
		return env.elabBinary(x)
	case EField:
		// package-qualified constant/var?
		if id, ok := x.X.(EIdent); ok && isPkgQual(id.Name) {
			if _, isBound := env.bound[id.Name]; !isBound {
				if v, ok, err := env.lookupQualified(id.Name, x.Name); ok || err != nil {
					return v, err
				}
			}
		}
		v, err := env.elab(x.X)
		if err != nil {
			return Val{}, err
		}
		return env.fieldOf(v, x.Name)
	case EMethod:
		v, err := env.elab(x.X)
		if err != nil {
			return Val{}, err
		}
		var args []Term
		for _, a := range x.Args {
			av, err := env.elab(a)
			if err != nil {
				return Val{}, err
			}
			args = append(args, av.T)
		}
		// a pure method of a concrete named type (contract key "T.M" or "(*T).M", marked pure)
		if v.GoT != nil {
			bt := v.GoT
			ptr := false
			if pt, ok := bt.(*types.Pointer); ok {
				bt, ptr = pt.Elem(), true
			}
			if nt, ok := bt.(*types.Named); ok && nt.Obj().Pkg() != nil {
				if _, isI := nt.Underlying().(*types.Interface); !isI {
					key := nt.Obj().Name() + "." + x.Name
					if ptr {
						key = "(*" + nt.Obj().Name() + ")." + x.Name
					}
					if pf, ok := P.pures[nt.Obj().Pkg().Path()+"|"+key]; ok && len(pf.resT) == 1 && len(pf.paramT) == len(args)+1 {
						return Val{T: app(P.sorts.sortOf(pf.resT[0]), pf.sym[0], append([]Term{v.T}, args...)...), GoT: pf.resT[0]}, nil
					}
					// library method with a pure extern contract: keyed "(pkg.T)|M" / "(*pkg.T)|M"
					ek := "(" + nt.Obj().Pkg().Name() + "." + nt.Obj().Name() + ")|" + x.Name
					if ptr {
						ek = "(*" + nt.Obj().Pkg().Name() + "." + nt.Obj().Name() + ")|" + x.Name
					}
					if pf, ok := P.pures[ek]; ok && len(pf.resT) == 1 && len(pf.paramT) == len(args)+1 {
						return Val{T: app(P.sorts.sortOf(pf.resT[0]), pf.sym[0], append([]Term{v.T}, args...)...), GoT: pf.resT[0]}, nil
					}
				}
			}
		}
		sym, rt, err := P.ifacePureSym(v.GoT, x.Name)
		if err != nil {
			return Val{}, err
		}
		return Val{T: app(P.sorts.sortOf(rt), sym, append([]Term{v.T}, args...)...), GoT: rt}, nil
	case EIndex:
		v, err := env.elab(x.X)
		if err != nil {
			return Val{}, err
		}
		i, err := env.elab(x.I)
		if err != nil {
			return Val{}, err
		}
		return env.indexOf(v, i)
	case ESlice:
		v, err := env.elab(x.X)
		if err != nil {
			return Val{}, err
		}
		var lo, hi *Val
		if x.Lo != nil {
			l, err := env.elab(x.Lo)
			if err != nil {
				return Val{}, err
			}
			lo = &l
		}
		if x.Hi != nil {
			h, err := env.elab(x.Hi)
			if err != nil {
				return Val{}, err
			}
			hi = &h
		}
		return env.sliceOf(v, lo, hi)
	case ECall:
		return env.elabCall(x)
	case EQuant:
		return env.elabQuant(x)
	}
	return Val{}, fmt.Errorf("cannot elaborate %T", e)
}

func unifyNil(a, b Val) (Val, Val) {
	if a.T.Sort == "Nil" && b.T.Sort != "Nil" {
		a.T = zeroOfSort(b.T.Sort)
		a.GoT = b.GoT
	}
	if b.T.Sort == "Nil" && a.T.Sort != "Nil" {
		b.T = zeroOfSort(a.T.Sort)
		b.GoT = a.GoT
	}
	return a, b
}

func (env *Env) elabRaw(x ERaw) (Val, error) {
	// substitute $name by elaborated identifiers
	var sb strings.Builder
	s := x.Text
	for i := 0; i < len(s); {
		if s[i] == '$' && i+1 < len(s) && isIdStart(s[i+1]) {
			j := i + 1
			for j < len(s) && isIdCont(s[j]) {
				j++
			}
			v, err := env.elabIdent(s[i+1 : j])
			if err != nil {
				return Val{}, err
			}
			sb.WriteString(v.T.S)
			i = j
			continue
		}
		sb.WriteByte(s[i])
		i++
	}
	return Val{T: Term{sb.String(), x.Sort}}, nil
}

func (env *Env) lookupQualified(q, name string) (Val, bool, error) {
	for _, tp := range env.P.allTypesPkgs() {
		if tp.Name() != q {
			continue
		}
		o := tp.Scope().Lookup(name)
		if o == nil {
			continue
		}
		v, err := env.objectVal(o)
		return v, true, err
	}
	return Val{}, false, nil
}

func (env *Env) objectVal(o types.Object) (Val, error) {
	switch ob := o.(type) {
	case *types.Const:
		return constVal(env.P, ob.Val(), ob.Type())
	case *types.Var:
		if env.fx != nil {
			if v, ok, err := env.fx.varVal(env, ob); ok || err != nil {
				return v, err
			}
		}
		if ob.Parent() == ob.Pkg().Scope() { // package-level var
			return env.globalVal(ob)
		}
		return Val{}, fmt.Errorf("variable %s not available here", ob.Name())
	case *types.Nil:
		return Val{T: Term{"0", "Nil"}}, nil
	}
	return Val{}, fmt.Errorf("cannot use %s here", o.Name())
}

func (env *Env) globalVal(ob *types.Var) (Val, error) {
	name := "G$" + ob.Pkg().Name() + "." + ob.Name()
	sort := env.P.sorts.sortOf(ob.Type())
	if env.st != nil {
		return Val{T: env.st.getHeap(env.P, name, sort), GoT: ob.Type()}, nil
	}
	return Val{T: env.P.heapInit(name, sort), GoT: ob.Type()}, nil
}

func constVal(P *Prog, cv constant.Value, t types.Type) (Val, error) {
	switch cv.Kind() {
	case constant.Int:
		bi, _ := new(big.Int).SetString(cv.ExactString(), 10)
		return Val{T: bigLit(bi), GoT: t}, nil
	case constant.String:
		return Val{T: P.strLit(constant.StringVal(cv)), GoT: t}, nil
	case constant.Bool:
		if constant.BoolVal(cv) {
			return Val{T: tTrue, GoT: t}, nil
		}
		return Val{T: tFalse, GoT: t}, nil
	}
	return Val{}, fmt.Errorf("unsupported constant kind")
}

func (env *Env) elabIdent(name string) (Val, error) {
	if v, ok := env.bound[name]; ok {
		if v.DerefT != nil {
			if env.st == nil {
				return Val{}, fmt.Errorf("captured variable %s read without state", name)
			}
			return Val{T: env.st.read(env.P, &Loc{kind: locPtr, base: v.T, rootT: v.DerefT}), GoT: v.DerefT}, nil
		}
		return v, nil
	}
	if name == "result" && len(env.results) >= 1 {
		return env.results[0], nil
	}
	if strings.HasPrefix(name, "result") && len(name) > 6 {
		var k int
		if _, err := fmt.Sscanf(name[6:], "%d", &k); err == nil {
			if k < len(env.results) {
				return env.results[k], nil
			}
			return Val{}, fmt.Errorf("%s: function has %d results", name, len(env.results))
		}
	}
	if env.fx != nil {
		if v, ok, err := env.fx.lookupName(env, name); ok || err != nil {
			return v, err
		}
	}
	if g, ok := env.P.ghostComps[name]; ok {
		if env.st == nil {
			return Val{}, fmt.Errorf("ghost component %s read without state", name)
		}
		t, err := env.P.resolveType(env.P.pkgOf(g.Pkg), g.Type)
		if err != nil {
			return Val{}, err
		}
		return Val{T: env.st.getHeap(env.P, "X$"+name, fmt.Sprintf("(Array Int %s)", env.P.sorts.sortOf(t))), GoT: t, Ghost: name}, nil
	}
	if env.pkg != nil {
		if o := env.pkg.Scope().Lookup(name); o != nil {
			switch o.(type) {
			case *types.Const, *types.Var:
				return env.objectVal(o)
			}
		}
	}
	// nullary spec function / ghost constant
	if sf := env.P.findSpec(env.pkg, name); sf != nil && len(sf.Params) == 0 {
		return env.callSpec(sf, nil)
	}
	return Val{}, fmt.Errorf("unknown identifier %q", name)
}

// ctorArgs splits "(ctor a1 ... an)" into its top-level arguments.
func ctorArgs(t, ctor string) ([]string, bool) {
	pre := "(" + ctor + " "
	if !strings.HasPrefix(t, pre) || !strings.HasSuffix(t, ")") {
		return nil, false
	}
	body := t[len(pre) : len(t)-1]
	var out []string
	depth, start := 0, 0
	inStr := false
	for i := 0; i < len(body); i++ {
		c := body[i]
		switch {
		case c == '"':
			inStr = !inStr
		case inStr:
		case c == '(':
			depth++
		case c == ')':
			depth--
			if depth < 0 {
				return nil, false
			}
		case c == ' ' && depth == 0:
			if i > start {
				out = append(out, body[start:i])
			}
			start = i + 1
		}
	}
	if depth != 0 || inStr {
		return nil, false
	}
	if start < len(body) {
		out = append(out, body[start:])
	}
	return out, true
}

func (env *Env) fieldOf(v Val, name string) (Val, error) {
	if v.GoT == nil {
		return Val{}, fmt.Errorf("field %s of untyped value", name)
	}
	t := v.GoT
	ptr := false
	if p, ok := t.Underlying().(*types.Pointer); ok {
		t = p.Elem()
		ptr = true
	}
	st, ok := t.Underlying().(*types.Struct)
	if !ok {
		return Val{}, fmt.Errorf("field %s of non-struct %s", name, t)
	}
	for i := 0; i < st.NumFields(); i++ {
		if st.Field(i).Name() == name {
			ft := st.Field(i).Type()
			if !ptr {
				si := env.P.sorts.structInfoOf(t)
				// field of a struct value that is literally a constructor application: take the component (keeps
				// terms small and lets quantified frame conditions trigger on the underlying heap reads)
				if args, ok := ctorArgs(v.T.S, si.ctor); ok && len(args) == len(si.fields) {
					return Val{T: Term{args[i], si.fsorts[i]}, GoT: ft}, nil
				}
				return Val{T: app(si.fsorts[i], si.fields[i], v.T), GoT: ft}, nil
			}
			if env.st == nil {
				return Val{}, fmt.Errorf("heap read %s.%s without state", t, name)
			}
			loc := &Loc{kind: locPtr, base: v.T, rootT: t, path: []pathStep{{field: i, ct: t}}}
			r := env.st.read(env.P, loc)
			return Val{T: r, GoT: ft}, nil
		}
		// embedded promotion (one level)
		if st.Field(i).Embedded() {
			ft := st.Field(i).Type()
			et := ft
			if p, ok := et.Underlying().(*types.Pointer); ok {
				et = p.Elem()
			}
			if est, ok := et.Underlying().(*types.Struct); ok {
				for j := 0; j < est.NumFields(); j++ {
					if est.Field(j).Name() == name {
						inner, err := env.fieldOf(v, st.Field(i).Name())
						if err != nil {
							return Val{}, err
						}
						return env.fieldOf(inner, name)
					}
				}
			}
		}
	}
	return Val{}, fmt.Errorf("no field %s in %s", name, t)
}

func (env *Env) derefVal(v Val) (Val, error) {
	p, ok := v.GoT.Underlying().(*types.Pointer)
	if !ok {
		return v, nil
	}
	if env.st == nil {
		return Val{}, fmt.Errorf("deref without state")
	}
	loc := &Loc{kind: locPtr, base: v.T, rootT: p.Elem()}
	return Val{T: env.st.read(env.P, loc), GoT: p.Elem()}, nil
}

func (env *Env) indexOf(v, i Val) (Val, error) {
	if v.Ghost != "" {
		idx := i.T
		if idx.Sort == "Iface" {
			idx = app("Int", "i_val", idx)
		}
		return Val{T: app(arrayElemSort(v.T.Sort), "select", v.T, idx), GoT: v.GoT}, nil
	}
	if v.T.Sort == "Str" {
		return Val{T: app("Int", "sat", v.T, i.T), GoT: types.Typ[types.Uint8]}, nil
	}
	if v.GoT == nil {
		return Val{}, fmt.Errorf("index of untyped value %s", v.T.S)
	}
	switch u := v.GoT.Underlying().(type) {
	case *types.Slice:
		es := env.P.sorts.sortOf(u.Elem())
		var inner Term
		if v.Aux != nil {
			inner = *v.Aux
		} else {
			if env.st == nil {
				return Val{}, fmt.Errorf("slice index without state")
			}
			h := env.st.getHeap(env.P, elemComp(u.Elem()), fmt.Sprintf("(Array Int (Array Int %s))", es))
			inner = app(fmt.Sprintf("(Array Int %s)", es), "select", h, app("Int", "s_arr", v.T))
		}
		return Val{T: app(es, "select", inner, eidx(v.T, i.T)), GoT: u.Elem()}, nil
	case *types.Array:
		es := env.P.sorts.sortOf(u.Elem())
		return Val{T: app(es, "select", v.T, i.T), GoT: u.Elem()}, nil
	case *types.Map:
		if env.st == nil {
			return Val{}, fmt.Errorf("map index without state")
		}
		m := env.st.mapVals(env.P, u, v.T)
		return Val{T: app(env.P.sorts.sortOf(u.Elem()), "select", m, i.T), GoT: u.Elem()}, nil
	case *types.Pointer:
		d, err := env.derefVal(v)
		if err != nil {
			return Val{}, err
		}
		return env.indexOf(d, i)
	}
	return Val{}, fmt.Errorf("cannot index %s", v.GoT)
}

func (env *Env) lenOf(v Val) (Val, error) {
	if v.T.Sort == "Str" {
		return Val{T: app("Int", "slen", v.T), GoT: types.Typ[types.Int]}, nil
	}
	if v.T.Sort == "Slice" {
		return Val{T: app("Int", "s_len", v.T), GoT: types.Typ[types.Int]}, nil
	}
	if v.GoT != nil {
		switch u := v.GoT.Underlying().(type) {
		case *types.Array:
			return Val{T: intLit(u.Len()), GoT: types.Typ[types.Int]}, nil
		case *types.Map:
			return Val{T: app("Int", "select", env.st.getHeap(env.P, "ML$"+typeKey(u), "(Array Int Int)"), v.T), GoT: types.Typ[types.Int]}, nil
		}
	}
	return Val{}, fmt.Errorf("len of %s", v.T.Sort)
}

func (env *Env) sliceOf(v Val, lo, hi *Val) (Val, error) {
	l := Term{"0", "Int"}
	if lo != nil {
		l = lo.T
	}
	if v.T.Sort == "Str" {
		h := app("Int", "slen", v.T)
		if hi != nil {
			h = hi.T
		}
		return Val{T: app("Str", "ssub", v.T, l, h), GoT: v.GoT}, nil
	}
	if v.T.Sort == "Slice" {
		h := app("Int", "s_len", v.T)
		if hi != nil {
			h = hi.T
		}
		r := app("Slice", "mk_slice", app("Int", "s_arr", v.T), app("Int", "+", app("Int", "s_off", v.T), l),
			app("Int", "-", h, l), app("Int", "-", app("Int", "s_cap", v.T), l))
		return Val{T: r, GoT: v.GoT, Aux: v.Aux}, nil
	}
	return Val{}, fmt.Errorf("cannot slice %s", v.T.Sort)
}

func (env *Env) elabBinary(x EBinary) (Val, error) {
	switch x.Op {
	case "&&", "||", "==>", "<==>":
		a, err := env.elabBool(x.X)
		if err != nil {
			return Val{}, err
		}
		b, err := env.elabBool(x.Y)
		if err != nil {
			return Val{}, err
		}
		switch x.Op {
		case "&&":
			return Val{T: and(a, b)}, nil
		case "||":
			return Val{T: or(a, b)}, nil
		case "==>":
			return Val{T: implies(a, b)}, nil
		default:
			return Val{T: eq(a, b)}, nil
		}
	}
	a, err := env.elab(x.X)
	if err != nil {
		return Val{}, err
	}
	b, err := env.elab(x.Y)
	if err != nil {
		return Val{}, err
	}
	a, b = unifyNil(a, b)
	switch x.Op {
	case "==", "!=":
		if a.T.Sort != b.T.Sort {
			return Val{}, fmt.Errorf("comparison of %s (%s) and %s (%s)", a.T.S, a.T.Sort, b.T.S, b.T.Sort)
		}
		var r Term
		if a.T.Sort == "Str" {
			r = app("Bool", "streq", a.T, b.T)
		} else {
			r = eq(a.T, b.T)
		}
		if x.Op == "!=" {
			r = not(r)
		}
		return Val{T: r}, nil
	case "<", "<=", ">", ">=":
		if a.T.Sort == "Str" && b.T.Sort == "Str" {
			switch x.Op {
			case "<":
				return Val{T: app("Bool", "slt", a.T, b.T)}, nil
			case ">":
				return Val{T: app("Bool", "slt", b.T, a.T)}, nil
			case "<=":
				return Val{T: not(app("Bool", "slt", b.T, a.T))}, nil
			default:
				return Val{T: not(app("Bool", "slt", a.T, b.T))}, nil
			}
		}
		if a.T.Sort != "Int" || b.T.Sort != "Int" {
			return Val{}, fmt.Errorf("ordering on %s,%s", a.T.Sort, b.T.Sort)
		}
		return Val{T: app("Bool", x.Op, a.T, b.T)}, nil
	case "+":
		if a.T.Sort == "Str" {
			return Val{T: app("Str", "scat", a.T, b.T), GoT: a.GoT}, nil
		}
		return Val{T: app("Int", "+", a.T, b.T), GoT: mathInt}, nil
	case "-", "*":
		return Val{T: app("Int", x.Op, a.T, b.T), GoT: mathInt}, nil
	case "/":
		return Val{T: app("Int", "div", a.T, b.T), GoT: mathInt}, nil
	case "%":
		return Val{T: app("Int", "mod", a.T, b.T), GoT: mathInt}, nil
	case "<<":
		return Val{T: shlTerm(a.T, b.T), GoT: mathInt}, nil
	case ">>":
		return Val{T: shrTerm(a.T, b.T), GoT: mathInt}, nil
	case "&":
		return Val{T: bandTerm(a.T, b.T), GoT: mathInt}, nil
	case "|":
		return Val{T: app("Int", "bor", a.T, b.T), GoT: mathInt}, nil
	}
	return Val{}, fmt.Errorf("unsupported operator %s", x.Op)
}

func constOf(t Term) (*big.Int, bool) {
	n, ok := new(big.Int).SetString(t.S, 10)
	return n, ok
}

func shlTerm(a, k Term) Term {
	if n, ok := constOf(k); ok && n.Sign() >= 0 && n.Int64() < 200 {
		return app("Int", "*", a, bigLit(new(big.Int).Lsh(big.NewInt(1), uint(n.Int64()))))
	}
	return app("Int", "shl", a, k)
}
func shrTerm(a, k Term) Term {
	if n, ok := constOf(k); ok && n.Sign() >= 0 && n.Int64() < 200 {
		return app("Int", "div", a, bigLit(new(big.Int).Lsh(big.NewInt(1), uint(n.Int64()))))
	}
	return app("Int", "shr", a, k)
}
func bandTerm(a, m Term) Term {
	// x & (2^k - 1) == x mod 2^k for x >= 0
	if n, ok := constOf(m); ok && n.Sign() > 0 {
		n1 := new(big.Int).Add(n, big.NewInt(1))
		if new(big.Int).And(n1, n).Sign() == 0 {
			return app("Int", "mod", a, bigLit(n1))
		}
	}
	return app("Int", "band", a, m)
}

func (env *Env) elabQuant(x EQuant) (Val, error) {
	c := env.clone()
	var decl []string
	var guards []Term
	for _, b := range x.Vars {
		t, err := env.P.resolveType(env.pkg, b.Type)
		if err != nil {
			return Val{}, err
		}
		sort := env.P.sorts.sortOf(t)
		name := "q_" + b.Name
		if _, clash := env.bound[b.Name]; clash {
			name = fmt.Sprintf("q_%s_%d", b.Name, len(env.bound))
		}
		decl = append(decl, fmt.Sprintf("(%s %s)", name, sort))
		v := Term{name, sort}
		c.bound[b.Name] = Val{T: v, GoT: t}
		if t != mathInt && b.Type != "int" {
			guards = append(guards, env.P.sorts.typeAssume(v, t))
		}
		// a pointer to a struct type that is never embedded by value denotes a whole object, not an interior
		// address of another object
		if pt, ok := t.Underlying().(*types.Pointer); ok {
			if _, isStruct := pt.Elem().Underlying().(*types.Struct); isStruct && !env.P.embeddable(pt.Elem()) {
				guards = append(guards, eq(app("Int", "iaoff", v), Term{"0", "Int"}))
			}
		}
	}
	body, err := c.elabBool(x.Body)
	if err != nil {
		return Val{}, err
	}
	g := and(guards...)
	if x.Forall {
		body = implies(g, body)
	} else {
		body = and(g, body)
	}
	pat := ""
	for _, tr := range x.Triggers {
		var ps []string
		for _, te := range tr {
			tv, err := c.elab(te)
			if err != nil {
				return Val{}, err
			}
			ps = append(ps, tv.T.S)
		}
		pat += " :pattern (" + strings.Join(ps, " ") + ")"
	}
	q := "forall"
	if !x.Forall {
		q = "exists"
	}
	if pat != "" {
		return Val{T: Term{fmt.Sprintf("(%s (%s) (! %s%s))", q, strings.Join(decl, " "), body.S, pat), "Bool"}}, nil
	}
	return Val{T: Term{fmt.Sprintf("(%s (%s) %s)", q, strings.Join(decl, " "), body.S), "Bool"}}, nil
}

func (env *Env) elabCall(x ECall) (Val, error) {
	P := env.P
	switch x.Fun {
	case "len":
		if len(x.Args) != 1 {
			return Val{}, fmt.Errorf("len arity")
		}
		v, err := env.elab(x.Args[0])
		if err != nil {
			return Val{}, err
		}
		return env.lenOf(v)
	case "cap":
		v, err := env.elab(x.Args[0])
		if err != nil {
			return Val{}, err
		}
		return Val{T: app("Int", "s_cap", v.T), GoT: types.Typ[types.Int]}, nil
	case "int", "int64", "uint64", "uint", "mathint", "uint32", "int32", "rune", "uint8":
		v, err := env.elab(x.Args[0])
		if err != nil {
			return Val{}, err
		}
		if v.T.Sort != "Int" {
			return Val{}, fmt.Errorf("int() of %s", v.T.Sort)
		}
		return Val{T: v.T, GoT: mathInt}, nil
	case "byte":
		v, err := env.elab(x.Args[0])
		if err != nil {
			return Val{}, err
		}
		return Val{T: app("Int", "mod", v.T, Term{"256", "Int"}), GoT: types.Typ[types.Uint8]}, nil
	case "string":
		v, err := env.elab(x.Args[0])
		if err != nil {
			return Val{}, err
		}
		if v.T.Sort == "Slice" {
			if env.st == nil && v.Aux == nil {
				return Val{}, fmt.Errorf("string(slice) without state")
			}
			var inner Term
			if v.Aux != nil {
				inner = *v.Aux
			} else {
				h := env.st.getHeap(P, elemComp(types.Typ[types.Uint8]), "(Array Int (Array Int Int))")
				inner = app("(Array Int Int)", "select", h, app("Int", "s_arr", v.T))
			}
			P.need["str_of_bytes"] = true
			return Val{T: app("Str", "str_of_bytes", inner, app("Int", "s_off", v.T), app("Int", "s_len", v.T)), GoT: types.Typ[types.String]}, nil
		}
		if v.T.Sort == "Int" {
			return Val{T: app("Str", "schr", v.T), GoT: types.Typ[types.String]}, nil
		}
		if at, ok := v.GoT.Underlying().(*types.Array); ok && v.T.Sort == "(Array Int Int)" && at.Len() < 1<<30 {
			// string(a) of a byte array value: its bytes as a string
			P.need["str_of_bytes"] = true
			return Val{T: app("Str", "str_of_bytes", v.T, Term{"0", "Int"}, intLit(at.Len())), GoT: types.Typ[types.String]}, nil
		}
		return v, nil
	case "fn": // a named library or package function used as a value: fn("unicode.IsSpace")
		ts, ok := x.Args[0].(EStr)
		if !ok {
			return Val{}, fmt.Errorf("fn(\"pkg.Name\") needs a string")
		}
		f := P.findExternFn(ts.V)
		if f == nil {
			return Val{}, fmt.Errorf("fn(%q): no such function", ts.V)
		}
		return Val{T: fnValue(P, f), GoT: f.Signature}, nil
	case "mk": // struct value: mk("T", f1, f2, ...) with one argument per field, in declaration order
		ts, ok := x.Args[0].(EStr)
		if !ok {
			return Val{}, fmt.Errorf("mk(\"T\", fields...) needs a type string")
		}
		t, err := P.resolveType(env.pkg, ts.V)
		if err != nil {
			return Val{}, err
		}
		st, ok := t.Underlying().(*types.Struct)
		if !ok || st.NumFields() != len(x.Args)-1 {
			return Val{}, fmt.Errorf("mk(%q, ...): %s is not a struct with %d fields", ts.V, ts.V, len(x.Args)-1)
		}
		srt := P.sorts.sortOf(t)
		si := P.sorts.structInfoOf(t)
		var fs []Term
		for i, a := range x.Args[1:] {
			v, err := env.elab(a)
			if err != nil {
				return Val{}, err
			}
			v = coerceNil(v, si.fsorts[i])
			if v.T.Sort != si.fsorts[i] {
				return Val{}, fmt.Errorf("mk(%q, ...): field %d has sort %s, want %s", ts.V, i, v.T.Sort, si.fsorts[i])
			}
			fs = append(fs, v.T)
		}
		return Val{T: app(srt, si.ctor, fs...), GoT: t}, nil
	case "unbox": // value stored in an interface: unbox(e, "T")
		v, err := env.elab(x.Args[0])
		if err != nil {
			return Val{}, err
		}
		ts, ok := x.Args[1].(EStr)
		if !ok || v.T.Sort != "Iface" || env.st == nil {
			return Val{}, fmt.Errorf("unbox(e, \"T\") needs an interface value, a type string and a state")
		}
		t, err := P.resolveType(env.pkg, ts.V)
		if err != nil {
			return Val{}, err
		}
		switch t.Underlying().(type) {
		case *types.Pointer, *types.Map, *types.Signature, *types.Chan:
			return Val{T: app("Int", "i_val", v.T), GoT: t}, nil
		}
		srt := P.sorts.sortOf(t)
		h := env.st.getHeap(P, "B$"+typeKey(t), fmt.Sprintf("(Array Int %s)", srt))
		return Val{T: app(srt, "select", h, app("Int", "i_val", v.T)), GoT: t}, nil
	case "asint64": // Go conversion int64(x) of a 64-bit unsigned value (two's complement wrap)
		v, err := env.elab(x.Args[0])
		if err != nil {
			return Val{}, err
		}
		return Val{T: app("Int", "swrap", v.T, Term{"18446744073709551616", "Int"}), GoT: types.Typ[types.Int64]}, nil
	case "oldarrays_kept": // every backing array (of this slice's element type) that existed at entry is unchanged
		if env.old == nil || env.st == nil {
			return Val{}, fmt.Errorf("oldarrays_kept needs old and current state")
		}
		a, err := env.elab(x.Args[0])
		if err != nil {
			return Val{}, err
		}
		u, ok := a.GoT.Underlying().(*types.Slice)
		if !ok {
			return Val{}, fmt.Errorf("oldarrays_kept of non-slice")
		}
		comp, sort := elemComp(u.Elem()), elemSort(P, u.Elem())
		h0, h1 := env.old.getHeap(P, comp, sort), env.st.getHeap(P, comp, sort)
		if h0.S == h1.S {
			return Val{T: tTrue}, nil
		}
		return Val{T: Term{fmt.Sprintf("(forall ((fa Int)) (! (=> (< fa %s) (= (select %s fa) (select %s fa))) :pattern ((select %s fa))))", env.old.next.S, h1.S, h0.S, h1.S), "Bool"}}, nil
	case "fresharr": // the slice's backing array was allocated by this invocation (or the slice is nil)
		v, err := env.elab(x.Args[0])
		if err != nil {
			return Val{}, err
		}
		if env.old == nil {
			return Val{}, fmt.Errorf("fresharr needs the entry state")
		}
		return Val{T: or(eq(app("Int", "s_arr", v.T), Term{"0", "Int"}), app("Bool", ">=", app("Int", "s_arr", v.T), env.old.next))}, nil
	case "samearr": // two slices share their backing array
		a, err := env.elab(x.Args[0])
		if err != nil {
			return Val{}, err
		}
		b, err := env.elab(x.Args[1])
		if err != nil {
			return Val{}, err
		}
		return Val{T: eq(app("Int", "s_arr", a.T), app("Int", "s_arr", b.T))}, nil
	case "framearr": // frame: every backing array other than that of the given (old) slice is unchanged since the old state
		if env.old == nil || env.st == nil {
			return Val{}, fmt.Errorf("framearr needs old and current state")
		}
		a, err := env.elab(x.Args[0])
		if err != nil {
			return Val{}, err
		}
		u, ok := a.GoT.Underlying().(*types.Slice)
		if !ok {
			return Val{}, fmt.Errorf("framearr of non-slice")
		}
		comp, sort := elemComp(u.Elem()), elemSort(P, u.Elem())
		h0, h1 := env.old.getHeap(P, comp, sort), env.st.getHeap(P, comp, sort)
		return Val{T: Term{fmt.Sprintf("(forall ((fa Int)) (! (=> (and (or (not (= fa (s_arr %s))) (= fa 0)) (< fa %s)) (= (select %s fa) (select %s fa))) :pattern ((select %s fa))))", a.T.S, env.old.next.S, h1.S, h0.S, h1.S), "Bool"}}, nil
	case "visited": // map-range ghost: key already produced by the enclosing range-over-map loop
		if env.fx == nil || env.loop == nil || env.loop.rangeIt == nil {
			return Val{}, fmt.Errorf("visited() outside a range-over-map loop clause")
		}
		it, ok := env.st.iters[env.loop.rangeIt]
		if !ok || !strings.HasPrefix(it.Sort, "(Array") {
			return Val{}, fmt.Errorf("visited(): no map iterator state")
		}
		k, err := env.elab(x.Args[0])
		if err != nil {
			return Val{}, err
		}
		return Val{T: app("Bool", "select", it, k.T)}, nil
	case "has": // map membership
		m, err := env.elab(x.Args[0])
		if err != nil {
			return Val{}, err
		}
		k, err := env.elab(x.Args[1])
		if err != nil {
			return Val{}, err
		}
		mt, ok := m.GoT.Underlying().(*types.Map)
		if !ok || env.st == nil {
			return Val{}, fmt.Errorf("has() needs a map in a state")
		}
		pres := env.st.mapPresent(P, mt, m.T)
		return Val{T: and(not(eq(m.T, Term{"0", "Int"})), app("Bool", "select", pres, k.T))}, nil
	case "arr": // contents array of a slice in the current state
		v, err := env.elab(x.Args[0])
		if err != nil {
			return Val{}, err
		}
		u, ok := v.GoT.Underlying().(*types.Slice)
		if !ok {
			return Val{}, fmt.Errorf("arr() of non-slice")
		}
		es := P.sorts.sortOf(u.Elem())
		if v.Aux != nil {
			return Val{T: *v.Aux, GoT: types.NewArray(u.Elem(), 1<<40)}, nil
		}
		if env.st == nil {
			return Val{}, fmt.Errorf("arr() without state")
		}
		h := env.st.getHeap(P, elemComp(u.Elem()), elemSort(P, u.Elem()))
		return Val{T: app(fmt.Sprintf("(Array Int %s)", es), "select", h, app("Int", "s_arr", v.T)), GoT: types.NewArray(u.Elem(), 1<<40)}, nil
	case "pos": // position of index k of slice s inside its backing array: the heap-independent term to trigger on
		v, err := env.elab(x.Args[0])
		if err != nil {
			return Val{}, err
		}
		k, err := env.elab(x.Args[1])
		if err != nil {
			return Val{}, err
		}
		if v.T.Sort != "Slice" {
			return Val{}, fmt.Errorf("pos() of non-slice")
		}
		return Val{T: eidx(v.T, k.T), GoT: mathInt}, nil
	case "off":
		v, err := env.elab(x.Args[0])
		if err != nil {
			return Val{}, err
		}
		return Val{T: app("Int", "s_off", v.T), GoT: mathInt}, nil
	case "pow2":
		v, err := env.elab(x.Args[0])
		if err != nil {
			return Val{}, err
		}
		return Val{T: app("Int", "pow2", v.T), GoT: mathInt}, nil
	case "runeat", "runesz":
		a, err := env.elab(x.Args[0])
		if err != nil {
			return Val{}, err
		}
		b, err := env.elab(x.Args[1])
		if err != nil {
			return Val{}, err
		}
		return Val{T: app("Int", x.Fun, a.T, b.T), GoT: mathInt}, nil
	case "firstdiff":
		a, err := env.elab(x.Args[0])
		if err != nil {
			return Val{}, err
		}
		b, err := env.elab(x.Args[1])
		if err != nil {
			return Val{}, err
		}
		return Val{T: app("Int", "sfd", a.T, b.T), GoT: mathInt}, nil
	case "typeof":
		v, err := env.elab(x.Args[0])
		if err != nil {
			return Val{}, err
		}
		return Val{T: app("Int", "i_typ", v.T), GoT: mathInt}, nil
	case "typeid":
		id, ok := x.Args[0].(EIdent)
		if !ok {
			if s, ok2 := x.Args[0].(EStr); ok2 {
				id = EIdent{s.V}
			} else {
				return Val{}, fmt.Errorf("typeid needs a type name")
			}
		}
		t, err := P.resolveType(env.pkg, id.Name)
		if err != nil {
			return Val{}, err
		}
		return Val{T: intLit(int64(P.sorts.typeID(t))), GoT: mathInt}, nil
	case "ifaceptr": // pointer payload of an interface value; optional second argument: its pointer type, e.g. "*Line"
		v, err := env.elab(x.Args[0])
		if err != nil {
			return Val{}, err
		}
		if len(x.Args) == 2 {
			ts, ok := x.Args[1].(EStr)
			if !ok {
				return Val{}, fmt.Errorf("ifaceptr: second argument must be a type string")
			}
			t, err := P.resolveType(env.pkg, ts.V)
			if err != nil {
				return Val{}, err
			}
			return Val{T: app("Int", "i_val", v.T), GoT: t}, nil
		}
		return Val{T: app("Int", "i_val", v.T), GoT: mathInt}, nil
	case "fresh": // reference allocated during the call
		v, err := env.elab(x.Args[0])
		if err != nil {
			return Val{}, err
		}
		if env.old == nil {
			return Val{}, fmt.Errorf("fresh without old state")
		}
		if v.T.Sort == "Iface" { // an interface value is fresh when its payload was allocated during the call
			return Val{T: app("Bool", ">=", app("Int", "i_val", v.T), env.old.next)}, nil
		}
		return Val{T: app("Bool", ">=", v.T, env.old.next)}, nil
	case "allocated":
		v, err := env.elab(x.Args[0])
		if err != nil {
			return Val{}, err
		}
		return Val{T: and(app("Bool", "<", v.T, env.st.next), app("Bool", "<", Term{"0", "Int"}, v.T))}, nil
	}
	// spec function?
	if sf := P.findSpec(env.pkg, x.Fun); sf != nil {
		var args []Val
		for _, a := range x.Args {
			v, err := env.elab(a)
			if err != nil {
				return Val{}, err
			}
			args = append(args, v)
		}
		return env.callSpec(sf, args)
	}
	// pure Go function (contract marked pure)?
	if pf := P.findPureFunc(env.pkg, x.Fun); pf != nil {
		var args []Term
		if len(x.Args) != len(pf.paramT) {
			return Val{}, fmt.Errorf("%s: expected %d args", x.Fun, len(pf.paramT))
		}
		for i, a := range x.Args {
			v, err := env.elab(a)
			if err != nil {
				return Val{}, err
			}
			v = coerceNil(v, P.sorts.sortOf(pf.paramT[i]))
			if v.T.Sort != P.sorts.sortOf(pf.paramT[i]) {
				return Val{}, fmt.Errorf("%s: arg %d has sort %s, want %s", x.Fun, i, v.T.Sort, P.sorts.sortOf(pf.paramT[i]))
			}
			args = append(args, v.T)
		}
		if len(pf.resT) != 1 {
			return Val{}, fmt.Errorf("%s: pure function with %d results cannot be used in expressions; use %s_r<k>", x.Fun, len(pf.resT), x.Fun)
		}
		return Val{T: app(P.sorts.sortOf(pf.resT[0]), pf.sym[0], args...), GoT: pf.resT[0]}, nil
	}
	// name_r<k> for multi-result pure functions
	if i := strings.LastIndex(x.Fun, "_r"); i > 0 {
		if pf := P.findPureFunc(env.pkg, x.Fun[:i]); pf != nil {
			var k int
			if _, err := fmt.Sscanf(x.Fun[i+2:], "%d", &k); err == nil && k < len(pf.resT) {
				var args []Term
				for _, a := range x.Args {
					v, err := env.elab(a)
					if err != nil {
						return Val{}, err
					}
					args = append(args, v.T)
				}
				return Val{T: app(P.sorts.sortOf(pf.resT[k]), pf.sym[k], args...), GoT: pf.resT[k]}, nil
			}
		}
	}
	return Val{}, fmt.Errorf("unknown function %q in contract expression", x.Fun)
}

func coerceNil(v Val, sort string) Val {
	if v.T.Sort == "Nil" {
		v.T = zeroOfSort(sort)
	}
	return v
}

// callSpec applies a spec function (or expands a macro).
func (env *Env) callSpec(sf *SpecFunc, args []Val) (Val, error) {
	P := env.P
	if len(args) != len(sf.Params) {
		return Val{}, fmt.Errorf("%s: expected %d args, got %d", sf.Name, len(sf.Params), len(args))
	}
	si, err := P.specInfo(sf)
	if err != nil {
		return Val{}, err
	}
	if sf.Macro {
		c := env.clone()
		c.pkg = si.pkg
		c.bound = map[string]Val{}
		for i, p := range sf.Params {
			a := coerceNil(args[i], P.sorts.sortOf(si.paramT[i]))
			a.GoT = si.paramT[i]
			c.bound[p.Name] = a
		}
		c.fx = nil
		v, err := c.elab(sf.Body)
		if err != nil {
			return Val{}, fmt.Errorf("in macro %s: %v", sf.Name, err)
		}
		return v, nil
	}
	var ts []Term
	for i, a := range args {
		a = coerceNil(a, P.sorts.sortOf(si.paramT[i]))
		want := P.sorts.sortOf(si.paramT[i])
		if a.T.Sort != want {
			return Val{}, fmt.Errorf("%s: arg %d has sort %s, want %s", sf.Name, i, a.T.Sort, want)
		}
		ts = append(ts, a.T)
		if want == "Slice" {
			// pass contents too
			u := si.paramT[i].Underlying().(*types.Slice)
			es := P.sorts.sortOf(u.Elem())
			if a.Aux != nil {
				ts = append(ts, *a.Aux)
			} else {
				if env.st == nil {
					return Val{}, fmt.Errorf("%s: slice argument without state", sf.Name)
				}
				h := env.st.getHeap(P, elemComp(u.Elem()), fmt.Sprintf("(Array Int (Array Int %s))", es))
				ts = append(ts, app(fmt.Sprintf("(Array Int %s)", es), "select", h, app("Int", "s_arr", a.T)))
			}
		}
	}
	rs := P.sorts.sortOf(si.resT)
	if si.fuel {
		f := Term{"FMAX", "Fuel"}
		if env.fuelAll && env.fuelCtr != nil {
			// trigger terms get their own bound fuel variable; the same application elsewhere in the
			// lemma shares it; every other application uses the constant fuel
			key := app(rs, si.sym, ts...).S
			name, ok := env.fuelMap[key]
			if !ok && env.fuelNew {
				*env.fuelCtr++
				name = fmt.Sprintf("ly%d", *env.fuelCtr)
				env.fuelMap[key] = name
				ok = true
			}
			if ok {
				f = Term{name, "Fuel"}
			}
		} else if env.fuelSelf == sf.Name {
			f = Term{"ly", "Fuel"}
		}
		ts = append([]Term{f}, ts...)
	}
	if len(ts) == 0 {
		return Val{T: Term{si.sym, rs}, GoT: si.resT}, nil
	}
	return Val{T: app(rs, si.sym, ts...), GoT: si.resT}, nil
}
