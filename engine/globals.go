package main

// Facts about package-level variables initialised with constant composite literals
// (derived from the source on every run; the variable must never be stored to outside init).

import (
	"fmt"
	"go/ast"
	"go/constant"
	"go/token"
	"go/types"

	"golang.org/x/tools/go/ssa"
)

func (fx *FnCtx) globalInitFacts() {
	P := fx.P
	seen := map[*ssa.Global]bool{}
	for _, b := range fx.fn.Blocks {
		for _, in := range b.Instrs {
			for _, op := range in.Operands(nil) {
				g, ok := (*op).(*ssa.Global)
				if !ok || seen[g] {
					continue
				}
				seen[g] = true
				fx.oneGlobal(g)
			}
		}
	}
	_ = P
	// each sentinel is the result of its own errors.New / fmt.Errorf call: distinct allocations, distinct values
	if len(fx.sentinels) > 1 {
		fx.assumeDef(app("Bool", "distinct", fx.sentinels...))
		fx.notes["package-level error sentinels initialised by separate errors.New/fmt.Errorf calls are pairwise distinct"] = true
	}
}

func (fx *FnCtx) oneGlobal(g *ssa.Global) {
	P := fx.P
	var info *types.Info
	var files []*ast.File
	for _, pk := range P.pkgs {
		if pk.Types == g.Pkg.Pkg {
			info, files = pk.TypesInfo, pk.Syntax
		}
	}
	if info == nil {
		return
	}
	// must be immutable: every referrer in the program is a load or a read-only use
	if !P.globalImmutable(g) {
		return
	}
	for _, f := range files {
		for _, d := range f.Decls {
			gd, ok := d.(*ast.GenDecl)
			if !ok || gd.Tok != token.VAR {
				continue
			}
			for _, sp := range gd.Specs {
				vs := sp.(*ast.ValueSpec)
				for i, n := range vs.Names {
					if n.Name != g.Name() || i >= len(vs.Values) {
						continue
					}
					if ce, ok := vs.Values[i].(*ast.CallExpr); ok {
						// var x = []byte("literal"): length and bytes of the initial value (the slice is never stored to
						// as a variable; its elements are covered by the frame like any other []byte)
						if at, ok := ce.Fun.(*ast.ArrayType); ok && at.Len == nil && len(ce.Args) == 1 {
							if tv, ok := info.Types[ce.Args[0]]; ok && tv.Value != nil && tv.Value.Kind() == constant.String {
								if st, ok := deref(g.Type()).Underlying().(*types.Slice); ok {
									if bt, ok := st.Elem().Underlying().(*types.Basic); ok && bt.Kind() == types.Uint8 {
										str := constant.StringVal(tv.Value)
										gname := "G$" + g.Pkg.Pkg.Name() + "." + g.Name()
										gv := fx.entry.getHeap(P, gname, "Slice")
										es := P.sorts.sortOf(st.Elem())
										h := fx.entry.getHeap(P, elemComp(st.Elem()), elemSort(P, st.Elem()))
										inner := app(fmt.Sprintf("(Array Int %s)", es), "select", h, app("Int", "s_arr", gv))
										fx.assumeDef(and(eq(app("Int", "s_len", gv), intLit(int64(len(str)))), eq(app("Int", "s_off", gv), Term{"0", "Int"}),
											app("Bool", "<", Term{"0", "Int"}, app("Int", "s_arr", gv)), app("Bool", "<", app("Int", "s_arr", gv), Term{"next0", "Int"}),
											app("Bool", "slice_ok", gv)))
										for k := 0; k < len(str); k++ {
											fx.assumeDef(eq(app(es, "select", inner, eidx(gv, intLit(int64(k)))), intLit(int64(str[k]))))
										}
										fx.notes[fmt.Sprintf("initial value of %s.%s taken from its []byte(%q) initialiser; no store to the variable exists outside init and no function under contract writes its elements (frame)", g.Pkg.Pkg.Name(), g.Name(), str)] = true
									}
								}
							}
							continue
						}
						// var errX = errors.New(...) / fmt.Errorf(...): a non-nil error that is never reassigned
						if se, ok := ce.Fun.(*ast.SelectorExpr); ok {
							if id, ok := se.X.(*ast.Ident); ok && ((id.Name == "errors" && se.Sel.Name == "New") || (id.Name == "fmt" && se.Sel.Name == "Errorf")) {
								gname := "G$" + g.Pkg.Pkg.Name() + "." + g.Name()
								gv := fx.entry.getHeap(P, gname, "Iface")
								fx.assumeDef(not(eq(app("Int", "i_typ", gv), Term{"0", "Int"})))
								// allocated by package initialisation, i.e. before this invocation started
								fx.assumeDef(and(app("Bool", "<", Term{"0", "Int"}, app("Int", "i_val", gv)), app("Bool", "<", app("Int", "i_val", gv), Term{"next0", "Int"})))
								fx.sentinels = append(fx.sentinels, gv)
								fx.notes[fmt.Sprintf("%s.%s is initialised by %s.%s and never reassigned: non-nil", g.Pkg.Pkg.Name(), g.Name(), id.Name, se.Sel.Name)] = true
							}
						}
						continue
					}
					cl, ok := vs.Values[i].(*ast.CompositeLit)
					if !ok {
						continue
					}
					st, ok := deref(g.Type()).Underlying().(*types.Slice)
					if !ok {
						continue
					}
					var elems []Term
					for _, e := range cl.Elts {
						tv, ok := info.Types[e]
						if !ok || tv.Value == nil {
							return
						}
						switch tv.Value.Kind() {
						case constant.String:
							elems = append(elems, P.strLit(constant.StringVal(tv.Value)))
						case constant.Int:
							v, _ := constant.Int64Val(tv.Value)
							elems = append(elems, intLit(v))
						default:
							return
						}
					}
					gname := "G$" + g.Pkg.Pkg.Name() + "." + g.Name()
					gv := fx.entry.getHeap(P, gname, "Slice")
					es := P.sorts.sortOf(st.Elem())
					h := fx.entry.getHeap(P, elemComp(st.Elem()), elemSort(P, st.Elem()))
					inner := app(fmt.Sprintf("(Array Int %s)", es), "select", h, app("Int", "s_arr", gv))
					fx.assumeDef(and(eq(app("Int", "s_len", gv), intLit(int64(len(elems)))), eq(app("Int", "s_off", gv), Term{"0", "Int"}),
						app("Bool", "<", Term{"0", "Int"}, app("Int", "s_arr", gv)), app("Bool", "<", app("Int", "s_arr", gv), Term{"next0", "Int"}),
						app("Bool", "slice_ok", gv)))
					for k, e := range elems {
						fx.assumeDef(eq(app(es, "select", inner, eidx(gv, intLit(int64(k)))), e))
					}
					fx.notes[fmt.Sprintf("initial value of %s.%s taken from its composite literal (%d elements); no store to it exists outside init", g.Pkg.Pkg.Name(), g.Name(), len(elems))] = true
				}
			}
		}
	}
}

func (P *Prog) globalImmutable(g *ssa.Global) bool {
	for _, m := range g.Pkg.Members {
		fn, ok := m.(*ssa.Function)
		if !ok {
			continue
		}
		if !fnTouchesGlobalReadOnly(fn, g) {
			return false
		}
		for _, an := range fn.AnonFuncs {
			if !fnTouchesGlobalReadOnly(an, g) {
				return false
			}
		}
	}
	return true
}

func fnTouchesGlobalReadOnly(fn *ssa.Function, g *ssa.Global) bool {
	if fn.Name() == "init" {
		return true
	}
	for _, b := range fn.Blocks {
		for _, in := range b.Instrs {
			switch x := in.(type) {
			case *ssa.Store:
				if x.Addr == g {
					return false
				}
			case *ssa.UnOp:
				// loads are fine
			default:
				for _, op := range in.Operands(nil) {
					if *op == ssa.Value(g) {
						if _, isLoad := in.(*ssa.UnOp); !isLoad {
							return false
						}
					}
				}
			}
		}
	}
	return true
}
