package main

// Compilation of the executable fragment of the contract language to Go, used for
//  (a) replaying solver models on the real code (go test -overlay, nothing written to /repo),
//  (b) validating assumed library contracts against the real library.
// Quantifiers over int are evaluated over a bounded range around the lengths of the inputs
// (stated in the replay file); anything outside the fragment makes the replay "not applicable".

import (
	"fmt"
	"go/types"
	"sort"
	"strings"
)

type goVal struct {
	code string
	kind string // int bool string err go
	goT  types.Type
}

type goComp struct {
	P       *Prog
	pkg     *types.Package
	funcs   map[string]string // generated spec functions
	order   []string
	imports map[string]string // alias -> path
	err     error
	inprog  map[string]bool
	host    *types.Package // package the generated code lives in
}

func newGoComp(P *Prog, pkg *types.Package) *goComp {
	return &goComp{P: P, pkg: pkg, host: pkg, funcs: map[string]string{}, imports: map[string]string{}, inprog: map[string]bool{}}
}

func kindOfType(t types.Type) string {
	if t == nil {
		return "go"
	}
	switch u := t.Underlying().(type) {
	case *types.Basic:
		switch {
		case u.Info()&types.IsBoolean != 0:
			return "bool"
		case u.Info()&types.IsInteger != 0:
			return "int"
		case u.Info()&types.IsString != 0:
			return "string"
		}
	case *types.Interface:
		return "err"
	}
	return "go"
}

func kindOfSpecType(s string) string {
	switch s {
	case "int", "int64", "byte", "rune", "uint8", "int32", "uint", "uint64", "mathint", "Int":
		return "int"
	case "bool":
		return "bool"
	case "string":
		return "string"
	}
	return ""
}

type goEnv struct {
	vars map[string]goVal
}

func (g *goComp) fail(f string, a ...interface{}) goVal {
	if g.err == nil {
		g.err = fmt.Errorf(f, a...)
	}
	return goVal{code: "0", kind: "int"}
}

func (g *goComp) compile(e Expr, env *goEnv) goVal {
	switch x := e.(type) {
	case EInt:
		return goVal{code: x.V.String(), kind: "int"}
	case EBool:
		return goVal{code: fmt.Sprint(x.V), kind: "bool"}
	case EStr:
		return goVal{code: fmt.Sprintf("%q", x.V), kind: "string"}
	case ENil:
		return goVal{code: "nil", kind: "nil"}
	case EIdent:
		if v, ok := env.vars[x.Name]; ok {
			return v
		}
		if g.pkg != nil {
			if o := g.pkg.Scope().Lookup(x.Name); o != nil {
				if c, ok := o.(*types.Const); ok {
					k := kindOfType(c.Type())
					if k == "int" {
						return goVal{code: "int(" + x.Name + ")", kind: "int"}
					}
					return goVal{code: x.Name, kind: k}
				}
			}
		}
		return g.fail("identifier %s is outside the executable fragment", x.Name)
	case EOld:
		return g.compile(x.X, env)
	case EUnary:
		v := g.compile(x.X, env)
		if x.Op == "!" {
			return goVal{code: "!(" + v.code + ")", kind: "bool"}
		}
		return goVal{code: "gSub2(0, " + v.code + ")", kind: "int"}
	case EIte:
		c, a, b := g.compile(x.C, env), g.compile(x.A, env), g.compile(x.B, env)
		k := a.kind
		gt := map[string]string{"int": "int", "bool": "bool", "string": "string"}[k]
		if gt == "" {
			return g.fail("if-then-else of kind %s", k)
		}
		return goVal{code: fmt.Sprintf("func() %s { if %s { return %s }; return %s }()", gt, c.code, a.code, b.code), kind: k}
	case EBinary:
		a, b := g.compile(x.X, env), g.compile(x.Y, env)
		switch x.Op {
		case "&&", "||":
			return goVal{code: "(" + a.code + " " + x.Op + " " + b.code + ")", kind: "bool"}
		case "==>":
			return goVal{code: "(!(" + a.code + ") || (" + b.code + "))", kind: "bool"}
		case "<==>":
			return goVal{code: "((" + a.code + ") == (" + b.code + "))", kind: "bool"}
		case "==", "!=":
			if a.kind == "nil" || b.kind == "nil" || a.kind == "err" || b.kind == "err" {
				return goVal{code: "(gIsNil(" + a.code + ") " + x.Op + " gIsNil(" + b.code + "))", kind: "bool"}
			}
			return goVal{code: "((" + a.code + ") " + x.Op + " (" + b.code + "))", kind: "bool"}
		case "<", "<=", ">", ">=":
			return goVal{code: "((" + a.code + ") " + x.Op + " (" + b.code + "))", kind: "bool"}
		case "+":
			if a.kind == "string" {
				return goVal{code: "(" + a.code + " + " + b.code + ")", kind: "string"}
			}
			return goVal{code: "gAdd(" + a.code + ", " + b.code + ")", kind: "int"}
		case "-":
			return goVal{code: "gSub2(" + a.code + ", " + b.code + ")", kind: "int"}
		case "*":
			return goVal{code: "gMul(" + a.code + ", " + b.code + ")", kind: "int"}
		case "/":
			return goVal{code: "gDiv(" + a.code + ", " + b.code + ")", kind: "int"}
		case "%":
			return goVal{code: "gMod(" + a.code + ", " + b.code + ")", kind: "int"}
		}
		return g.fail("operator %s outside the executable fragment", x.Op)
	case EIndex:
		a, i := g.compile(x.X, env), g.compile(x.I, env)
		if a.kind != "string" {
			return g.fail("indexing a %s", a.kind)
		}
		return goVal{code: "gAt(" + a.code + ", " + i.code + ")", kind: "int"}
	case ESlice:
		a := g.compile(x.X, env)
		if a.kind != "string" {
			return g.fail("slicing a %s", a.kind)
		}
		lo, hi := "0", "len("+a.code+")"
		if x.Lo != nil {
			lo = g.compile(x.Lo, env).code
		}
		if x.Hi != nil {
			hi = g.compile(x.Hi, env).code
		}
		return goVal{code: "gSub(" + a.code + ", " + lo + ", " + hi + ")", kind: "string"}
	case EField:
		if id, ok := x.X.(EIdent); ok && isPkgQual(id.Name) {
			if _, bound := env.vars[id.Name]; !bound {
				return g.fail("qualified identifier %s.%s", id.Name, x.Name)
			}
		}
		v := g.compile(x.X, env)
		if v.goT == nil {
			return g.fail("field of untyped value")
		}
		t := v.goT
		if p, ok := t.Underlying().(*types.Pointer); ok {
			t = p.Elem()
		}
		st, ok := t.Underlying().(*types.Struct)
		if !ok {
			return g.fail("field of non-struct")
		}
		for i := 0; i < st.NumFields(); i++ {
			if st.Field(i).Name() == x.Name {
				ft := st.Field(i).Type()
				k := kindOfType(ft)
				code := v.code + "." + x.Name
				if k == "int" {
					code = "int(" + code + ")"
				}
				return goVal{code: code, kind: k, goT: ft}
			}
		}
		return g.fail("no field %s", x.Name)
	case EQuant:
		if len(x.Vars) == 0 {
			return g.compile(x.Body, env)
		}
		ne := &goEnv{vars: map[string]goVal{}}
		for k, v := range env.vars {
			ne.vars[k] = v
		}
		var sb strings.Builder
		res := "true"
		if !x.Forall {
			res = "false"
		}
		sb.WriteString("func() bool { ")
		for _, b := range x.Vars {
			if kindOfSpecType(b.Type) != "int" {
				return g.fail("quantifier over %s", b.Type)
			}
			vn := "q_" + b.Name
			ne.vars[b.Name] = goVal{code: vn, kind: "int"}
			sb.WriteString(fmt.Sprintf("for %s := -2; %s <= gBound; %s++ { ", vn, vn, vn))
		}
		body := g.compile(x.Body, ne)
		if x.Forall {
			sb.WriteString("if !(" + body.code + ") { return false }")
		} else {
			sb.WriteString("if " + body.code + " { return true }")
		}
		for range x.Vars {
			sb.WriteString(" }")
		}
		sb.WriteString("; return " + res + " }()")
		return goVal{code: sb.String(), kind: "bool"}
	case ECall:
		return g.compileCall(x, env)
	}
	return g.fail("expression %T outside the executable fragment", e)
}

func (g *goComp) compileCall(x ECall, env *goEnv) goVal {
	var args []goVal
	for _, a := range x.Args {
		args = append(args, g.compile(a, env))
	}
	codes := func() string {
		var cs []string
		for _, a := range args {
			cs = append(cs, a.code)
		}
		return strings.Join(cs, ", ")
	}
	switch x.Fun {
	case "len":
		return goVal{code: "len(" + args[0].code + ")", kind: "int"}
	case "int", "int64", "uint64", "uint", "mathint", "uint32", "int32", "rune", "uint8":
		return goVal{code: args[0].code, kind: "int"}
	case "byte":
		return goVal{code: "gMod(" + args[0].code + ", 256)", kind: "int"}
	case "string":
		if args[0].kind == "int" {
			return goVal{code: "string(rune(" + args[0].code + "))", kind: "string"}
		}
		return args[0]
	case "runeat":
		g.imports["utf8"] = "unicode/utf8"
		return goVal{code: "gRuneAt(" + codes() + ")", kind: "int"}
	case "runesz":
		g.imports["utf8"] = "unicode/utf8"
		return goVal{code: "gRuneSz(" + codes() + ")", kind: "int"}
	case "firstdiff":
		return goVal{code: "gFirstDiff(" + codes() + ")", kind: "int"}
	}
	if sf := g.P.findSpec(g.pkg, x.Fun); sf != nil {
		name := g.specFunc(sf)
		k := kindOfSpecType(sf.Result)
		if k == "" {
			return g.fail("spec %s returns %s", sf.Name, sf.Result)
		}
		return goVal{code: name + "(" + codes() + ")", kind: k}
	}
	// pure Go function: call the real code
	if pf := g.P.findPureFunc(g.pkg, x.Fun); pf != nil && pf.fn != nil && len(pf.resT) == 1 {
		var cs []string
		for i, a := range args {
			cs = append(cs, convArg(a, pf.paramT[i]))
		}
		q := ""
		name := pf.fn.Name()
		if pf.fn.Signature.Recv() != nil {
			return g.fail("method %s in executable contract", x.Fun)
		}
		if pf.fn.Pkg.Pkg != g.host {
			alias := pf.fn.Pkg.Pkg.Name()
			g.imports[alias] = pf.fn.Pkg.Pkg.Path()
			q = alias + "."
			if !pf.fn.Object().Exported() {
				return g.fail("unexported %s from another package", x.Fun)
			}
		}
		k := kindOfType(pf.resT[0])
		code := q + name + "(" + strings.Join(cs, ", ") + ")"
		if k == "int" {
			code = "int(" + code + ")"
		}
		return goVal{code: code, kind: k, goT: pf.resT[0]}
	}
	if i := strings.LastIndex(x.Fun, "_r"); i > 0 {
		if pf := g.P.findPureFunc(g.pkg, x.Fun[:i]); pf != nil && pf.fn != nil && pf.fn.Signature.Recv() == nil {
			var k int
			fmt.Sscanf(x.Fun[i+2:], "%d", &k)
			if k < len(pf.resT) {
				var cs []string
				for i, a := range args {
					cs = append(cs, convArg(a, pf.paramT[i]))
				}
				q := ""
				if pf.fn.Pkg.Pkg != g.host {
					alias := pf.fn.Pkg.Pkg.Name()
					g.imports[alias] = pf.fn.Pkg.Pkg.Path()
					q = alias + "."
				}
				var lhs []string
				for j := range pf.resT {
					if j == k {
						lhs = append(lhs, "r")
					} else {
						lhs = append(lhs, "_")
					}
				}
				kk := kindOfType(pf.resT[k])
				rt := map[string]string{"int": "int", "bool": "bool", "string": "string"}[kk]
				if rt == "" {
					return g.fail("result kind of %s", x.Fun)
				}
				conv := "r"
				if kk == "int" {
					conv = "int(r)"
				}
				return goVal{code: fmt.Sprintf("func() %s { %s := %s%s(%s); return %s }()", rt, strings.Join(lhs, ", "), q, pf.fn.Name(), strings.Join(cs, ", "), conv), kind: kk}
			}
		}
	}
	return g.fail("function %s outside the executable fragment", x.Fun)
}

func convArg(a goVal, t types.Type) string {
	if a.kind == "int" {
		return types.TypeString(t, func(p *types.Package) string { return p.Name() }) + "(" + a.code + ")"
	}
	return a.code
}

func (g *goComp) specFunc(sf *SpecFunc) string {
	name := "sp_" + sanitize(sf.Name)
	if _, ok := g.funcs[name]; ok || g.inprog[name] {
		return name
	}
	if sf.Body == nil {
		g.fail("spec %s is uninterpreted", sf.Name)
		return name
	}
	g.inprog[name] = true
	env := &goEnv{vars: map[string]goVal{}}
	var ps []string
	for _, p := range sf.Params {
		k := kindOfSpecType(p.Type)
		if k == "" {
			g.fail("spec %s parameter type %s", sf.Name, p.Type)
			k = "int"
		}
		env.vars[p.Name] = goVal{code: "p_" + p.Name, kind: k}
		ps = append(ps, "p_"+p.Name+" "+k)
	}
	oldPkg := g.pkg
	if sp := g.P.pkgOf(sf.Pkg); sp != nil {
		g.pkg = sp
	}
	if sf.Pkg != "" && g.host != nil && g.P.pkgOf(sf.Pkg) != g.host {
		// a spec of another package may use that package's unexported helpers: not callable from here
	}
	body := g.compile(sf.Body, env)
	g.pkg = oldPkg
	rk := kindOfSpecType(sf.Result)
	g.funcs[name] = fmt.Sprintf("func %s(%s) %s { gFuel(); return %s }\n", name, strings.Join(ps, ", "), rk, body.code)
	g.order = append(g.order, name)
	delete(g.inprog, name)
	return name
}

const goHelpers = `
type gUndef struct{ why string }
var gBound = 8
var gSteps = 0
func gFuel() { gSteps++; if gSteps > 20000000 { panic(gUndef{"fuel"}) } }
func gAdd(a, b int) int { c := a + b; if (c > a) != (b > 0) && b != 0 { panic(gUndef{"overflow"}) }; return c }
func gSub2(a, b int) int { c := a - b; if (c < a) != (b > 0) && b != 0 { panic(gUndef{"overflow"}) }; return c }
func gMul(a, b int) int { if a == 0 || b == 0 { return 0 }; c := a * b; if c/b != a { panic(gUndef{"overflow"}) }; return c }
func gDiv(a, b int) int { if b == 0 { panic(gUndef{"div0"}) }; q := a / b; if a%b != 0 && (a < 0) != (b < 0) { q-- }; return q }
func gMod(a, b int) int { if b == 0 { panic(gUndef{"div0"}) }; return a - b*gDiv(a, b) }
func gAt(s string, k int) int { if k < 0 || k >= len(s) { panic(gUndef{"index"}) }; return int(s[k]) }
func gSub(s string, a, b int) string { if a < 0 || a > b || b > len(s) { panic(gUndef{"slice"}) }; return s[a:b] }
func gIsNil(x interface{}) bool { return x == nil }
func gFirstDiff(a, b string) int { i := 0; for i < len(a) && i < len(b) && a[i] == b[i] { i++ }; return i }
`

const goRuneHelpers = `
func gRuneAt(s string, i int) int { if i < 0 || i >= len(s) { panic(gUndef{"index"}) }; r, _ := utf8.DecodeRuneInString(s[i:]); return int(r) }
func gRuneSz(s string, i int) int { if i < 0 || i >= len(s) { panic(gUndef{"index"}) }; _, n := utf8.DecodeRuneInString(s[i:]); return n }
`

func (g *goComp) emitFuncs() string {
	var sb strings.Builder
	names := append([]string{}, g.order...)
	sort.Strings(names)
	for _, n := range names {
		sb.WriteString(g.funcs[n])
	}
	return sb.String()
}
