package main

// SSA instruction encoding.

import (
	"sort"
	"hash/fnv"
	"fmt"
	"go/constant"
	"go/token"
	"go/types"
	"math/big"
	"strings"

	"golang.org/x/tools/go/ssa"
)

func (fx *FnCtx) val(v ssa.Value) Term {
	if t, ok := fx.vals[v]; ok {
		return t
	}
	P := fx.P
	switch x := v.(type) {
	case *ssa.Const:
		return fx.constTerm(x)
	case *ssa.Function:
		return fnValue(P, x)
	case *ssa.Global:
		fx.errf("outside subset: address of global %s used as value in %s", x.Name(), fx.key)
		return Term{"0", "Int"}
	case *ssa.FieldAddr:
		// pointer to a nested struct field: its interior address
		if a, ok := fx.resolveAddr(x).addrOf(); ok {
			return a
		}
		fx.errf("outside subset: interior pointer %s escapes in %s", v.Name(), fx.key)
		return Term{"0", "Int"}
	case *ssa.IndexAddr:
		fx.errf("outside subset: interior pointer %s escapes in %s", v.Name(), fx.key)
		return Term{"0", "Int"}
	case *ssa.Alloc:
		if !x.Heap {
			fx.errf("outside subset: address of stack local %s used as value in %s", x.Comment, fx.key)
		}
		return Term{"0", "Int"}
	}
	fx.errf("internal: no value for %s (%T) in %s", v.Name(), v, fx.key)
	return Term{"0", fx.P.sorts.sortOf(v.Type())}
}

// fnValue: the value of a function used as data - distinct functions get distinct values (type id and a hash of
// the full name)
func fnValue(P *Prog, x *ssa.Function) Term {
	h := fnv.New32a()
	h.Write([]byte(x.String()))
	return intLit(int64(P.sorts.typeID(types.NewPointer(x.Signature)))*4294967296 + int64(h.Sum32()))
}

func (fx *FnCtx) constTerm(c *ssa.Const) Term {
	P := fx.P
	t := c.Type()
	if c.Value == nil {
		return P.sorts.zero(t)
	}
	switch c.Value.Kind() {
	case constant.Int:
		bi, _ := new(big.Int).SetString(c.Value.ExactString(), 10)
		return bigLit(bi)
	case constant.String:
		return P.strLit(constant.StringVal(c.Value))
	case constant.Bool:
		if constant.BoolVal(c.Value) {
			return tTrue
		}
		return tFalse
	}
	fx.errf("outside subset: constant %s in %s", c, fx.key)
	return P.sorts.zero(t)
}

func (fx *FnCtx) define(v ssa.Value, t Term) Term {
	name := v.Name()
	sort := t.Sort
	fx.declare(name, sort)
	c := Term{name, sort}
	fx.vals[v] = c
	fx.assumeDef(eq(c, t))
	return c
}

func (fx *FnCtx) defineFresh(v ssa.Value) Term {
	sort := fx.P.sorts.sortOf(v.Type())
	fx.declare(v.Name(), sort)
	c := Term{v.Name(), sort}
	fx.vals[v] = c
	return c
}

// resolveAddr turns an address-valued SSA value into a location (with obligations for nil/bounds).
func (fx *FnCtx) resolveAddr(addr ssa.Value) *Loc {
	if u, ok := addr.(*ssa.UnOp); ok && u.Op == token.MUL {
		if al, ok := u.X.(*ssa.Alloc); ok {
			if tgt := fx.aliasCellTarget(al); tgt != nil {
				return fx.resolveAddr(tgt)
			}
		}
	}
	switch a := addr.(type) {
	case *ssa.Alloc:
		if !a.Heap {
			return &Loc{kind: locLocal, alloc: a, rootT: deref(a.Type())}
		}
		return &Loc{kind: locPtr, base: fx.val(a), rootT: deref(a.Type())}
	case *ssa.Global:
		return &Loc{kind: locGlobal, gname: "G$" + a.Pkg.Pkg.Name() + "." + a.Name(), rootT: deref(a.Type())}
	case *ssa.FieldAddr:
		in := fx.resolveAddr(a.X)
		ct := deref(a.X.Type())
		n := *in
		n.path = append(append([]pathStep{}, in.path...), pathStep{field: a.Field, ct: ct})
		return &n
	case *ssa.IndexAddr:
		switch u := a.X.Type().Underlying().(type) {
		case *types.Slice:
			s := fx.val(a.X)
			return &Loc{kind: locElem, base: app("Int", "s_arr", s), idx: eidx(s, fx.val(a.Index)), rootT: u.Elem()}
		case *types.Pointer:
			in := fx.resolveAddr(a.X)
			n := *in
			n.path = append(append([]pathStep{}, in.path...), pathStep{field: -1, idx: fx.val(a.Index), ct: u.Elem()})
			return &n
		}
	}
	return &Loc{kind: locPtr, base: fx.val(addr), rootT: deref(addr.Type())}
}


// aliasCellTarget: a local pointer variable that is assigned exactly once, with the address of a slice element or
// of a field reached from one (com := &line.Suffix[0]), and otherwise only loaded, in blocks dominated by that
// assignment, is an alias for that address: loads of it resolve to the address itself instead of producing an
// interior pointer value (which the value model cannot represent).
func (fx *FnCtx) aliasCellTarget(a *ssa.Alloc) ssa.Value {
	if a.Heap || a.Referrers() == nil {
		return nil
	}
	if v, ok := fx.aliasCells[a]; ok {
		return v
	}
	fx.aliasCells[a] = nil
	if _, ok := deref(a.Type()).Underlying().(*types.Pointer); !ok {
		return nil
	}
	var store *ssa.Store
	var loads []*ssa.UnOp
	for _, r := range *a.Referrers() {
		switch u := r.(type) {
		case *ssa.Store:
			if u.Addr != a || store != nil {
				return nil
			}
			store = u
		case *ssa.UnOp:
			if u.Op != token.MUL {
				return nil
			}
			loads = append(loads, u)
		case *ssa.DebugRef:
		default:
			return nil
		}
	}
	if store == nil {
		return nil
	}
	root := store.Val
	for {
		if fa, ok := root.(*ssa.FieldAddr); ok {
			root = fa.X
			continue
		}
		break
	}
	if _, ok := root.(*ssa.IndexAddr); !ok {
		return nil
	}
	for _, l := range loads {
		if l.Block() == store.Block() {
			before := false
			for _, in := range l.Block().Instrs {
				if in == ssa.Instruction(store) {
					before = true
					break
				}
				if in == ssa.Instruction(l) {
					break
				}
			}
			if !before {
				return nil
			}
		} else if !store.Block().Dominates(l.Block()) {
			return nil
		}
		// a loaded alias may only be used to reach memory (field addresses, loads, stores through it)
		if !isAddrOnlyUse(l) {
			return nil
		}
	}
	fx.aliasCells[a] = store.Val
	return store.Val
}

// isAliasLoad: v is a load of an alias cell (an element address, never nil)
func (fx *FnCtx) isAliasLoad(v ssa.Value) bool {
	if u, ok := v.(*ssa.UnOp); ok && u.Op == token.MUL {
		if al, ok := u.X.(*ssa.Alloc); ok {
			return fx.aliasCellTarget(al) != nil
		}
	}
	return false
}

// onlyAliasStores: every use of the address v that is not an address-only use stores it into an alias cell
func (fx *FnCtx) onlyAliasStores(v ssa.Value) bool {
	refs := v.Referrers()
	if refs == nil {
		return true
	}
	for _, r := range *refs {
		switch u := r.(type) {
		case *ssa.UnOp:
			if u.Op != token.MUL {
				return false
			}
		case *ssa.Store:
			if u.Addr == v {
				continue
			}
			al, ok := u.Addr.(*ssa.Alloc)
			if !ok || u.Val != v || fx.aliasCellTarget(al) == nil {
				return false
			}
		case *ssa.FieldAddr, *ssa.IndexAddr, *ssa.DebugRef, *ssa.Slice:
		default:
			return false
		}
	}
	return true
}

func isAddrOnlyUse(v ssa.Value) bool {
	refs := v.Referrers()
	if refs == nil {
		return true
	}
	for _, r := range *refs {
		switch u := r.(type) {
		case *ssa.UnOp:
			if u.Op != token.MUL {
				return false
			}
		case *ssa.Store:
			if u.Addr != v {
				return false
			}
		case *ssa.FieldAddr, *ssa.IndexAddr, *ssa.DebugRef:
		case *ssa.Slice:
		default:
			return false
		}
	}
	return true
}

func (fx *FnCtx) sortOfV(v ssa.Value) string { return fx.P.sorts.sortOf(v.Type()) }

func (fx *FnCtx) instr(in ssa.Instruction) {
	P := fx.P
	st := fx.cur
	switch x := in.(type) {
	case *ssa.DebugRef:
	case *ssa.Alloc:
		t := deref(x.Type())
		if !x.Heap {
			st.locals[x] = P.sorts.zero(t)
			return
		}
		ref := fx.define(x, st.next)
		st.next = app("Int", "+", st.next, Term{allocStep, "Int"})
		fx.assume(eq(app("Int", "iaoff", ref), Term{"0", "Int"}))
		// zero-initialised (cells beyond the allocation frontier are zero)
		l := &Loc{kind: locPtr, base: ref, rootT: t}
		fx.assume(eq(st.read(P, l), P.sorts.zero(t)))
		// ghost state attached to a fresh object starts at its zero value (nothing written to a new buffer, ...)
		for _, gname := range sortedKeys(P.ghostComps) {
			g := P.ghostComps[gname]
			gt, err := P.resolveType(P.pkgOf(g.Pkg), g.Type)
			if err != nil {
				continue
			}
			gs := P.sorts.sortOf(gt)
			comp := "X$" + gname
			h := st.getHeap(P, comp, fmt.Sprintf("(Array Int %s)", gs))
			fx.assume(eq(app(gs, "select", h, ref), P.sorts.zero(gt)))
		}
	case *ssa.Store:
		if al, ok := x.Addr.(*ssa.Alloc); ok && fx.aliasCellTarget(al) != nil {
			return // the variable is an alias for the stored address (see aliasCellTarget)
		}
		l := fx.resolveAddr(x.Addr)
		for _, c := range l.comps(P) {
			if fvs, ok := fx.cellOnly[c]; ok {
				okAddr := false
				root := x.Addr
				for {
					if fa, ok := root.(*ssa.FieldAddr); ok {
						root = fa.X
						continue
					}
					break
				}
				for _, fv := range fvs {
					if root == ssa.Value(fv) {
						okAddr = true
					}
				}
				if !okAddr && !isFreshBase(x.Addr) {
					fx.errf("contract of %s allows writing %s only through its captured variable, but a store goes elsewhere", fx.key, c)
				}
			}
		}
		fx.freshWrite = isFreshBase(x.Addr)
		st.write(P, l, fx.val(x.Val))
		fx.freshWrite = false
	case *ssa.UnOp:
		fx.unop(x)
	case *ssa.BinOp:
		fx.binop(x)
	case *ssa.FieldAddr:
		if _, isAddr := x.X.(*ssa.Alloc); !isAddr && !fx.isAliasLoad(x.X) {
			if _, ok := x.X.(*ssa.FieldAddr); !ok {
				if _, ok := x.X.(*ssa.IndexAddr); !ok {
					fx.oblig("safe.nil", not(eq(fx.val(x.X), Term{"0", "Int"})), "nil dereference at field "+fieldName(x), nil, "")
				}
			}
		}
		if !isAddrOnlyUse(x) && !fx.onlyAliasStores(x) {
			if _, ok := fx.resolveAddr(x).addrOf(); !ok {
				fx.escapingInterior(x)
			}
		}
	case *ssa.IndexAddr:
		switch u := x.X.Type().Underlying().(type) {
		case *types.Slice:
			s := fx.val(x.X)
			i := fx.val(x.Index)
			fx.oblig("safe.idx", and(app("Bool", "<=", Term{"0", "Int"}, i), app("Bool", "<", i, app("Int", "s_len", s))), "index in range", nil, "")
		case *types.Pointer:
			n := u.Elem().Underlying().(*types.Array).Len()
			i := fx.val(x.Index)
			fx.oblig("safe.idx", and(app("Bool", "<=", Term{"0", "Int"}, i), app("Bool", "<", i, intLit(n))), "array index in range", nil, "")
		}
		if !isAddrOnlyUse(x) && !fx.onlyAliasStores(x) {
			fx.escapingInterior(x)
		}
	case *ssa.Field:
		si := P.sorts.structInfoOf(x.X.Type())
		fx.define(x, app(si.fsorts[x.Field], si.fields[x.Field], fx.val(x.X)))
	case *ssa.Index:
		switch u := x.X.Type().Underlying().(type) {
		case *types.Array:
			i := fx.val(x.Index)
			fx.oblig("safe.idx", and(app("Bool", "<=", Term{"0", "Int"}, i), app("Bool", "<", i, intLit(u.Len()))), "array index in range", nil, "")
			fx.define(x, app(P.sorts.sortOf(u.Elem()), "select", fx.val(x.X), i))
		case *types.Basic:
			sv, i := fx.val(x.X), fx.val(x.Index)
			fx.oblig("safe.idx", and(app("Bool", "<=", Term{"0", "Int"}, i), app("Bool", "<", i, app("Int", "slen", sv))), "string index in range", nil, "")
			fx.define(x, app("Int", "sat", sv, i))
		default:
			fx.errf("outside subset: Index on %s in %s", x.X.Type(), fx.key)
			fx.defineFresh(x)
		}
	case *ssa.Lookup:
		fx.lookup(x)
	case *ssa.Slice:
		fx.slice(x)
	case *ssa.Phi:
		var r Term
		for i := len(x.Edges) - 1; i >= 0; i-- {
			p := x.Block().Preds[i]
			c := and(fx.reach[p], fx.edgeCond[[2]int{p.Index, x.Block().Index}])
			v := fx.val(x.Edges[i])
			if i == len(x.Edges)-1 {
				r = v
			} else {
				r = ite(c, v, r)
			}
		}
		fx.define(x, r)
	case *ssa.Call:
		fx.call(x, &x.Call)
	case *ssa.Extract:
		ts, ok := fx.tuples[x.Tuple]
		if !ok || x.Index >= len(ts) {
			fx.errf("internal: extract from unknown tuple %s in %s", x.Tuple.Name(), fx.key)
			fx.defineFresh(x)
			return
		}
		fx.vals[x] = ts[x.Index]
	case *ssa.ChangeType:
		fx.vals[x] = fx.val(x.X)
	case *ssa.ChangeInterface:
		fx.vals[x] = fx.val(x.X)
	case *ssa.Convert:
		fx.convert(x)
	case *ssa.MakeInterface:
		fx.makeInterface(x)
	case *ssa.MakeSlice:
		n, c := fx.val(x.Len), fx.val(x.Cap)
		fx.oblig("safe.slice", and(app("Bool", "<=", Term{"0", "Int"}, n), app("Bool", "<=", n, c)), "make: 0 <= len <= cap", nil, "")
		arr := st.next
		st.next = app("Int", "+", st.next, Term{allocStep, "Int"})
		et := x.Type().Underlying().(*types.Slice).Elem()
		s := fx.define(x, app("Slice", "mk_slice", arr, Term{"0", "Int"}, n, c))
		h := st.getHeap(P, elemComp(et), elemSort(P, et))
		es := P.sorts.sortOf(et)
		fx.assume(eq(app(fmt.Sprintf("(Array Int %s)", es), "select", h, app("Int", "s_arr", s)),
			P.sorts.constArray(fmt.Sprintf("(Array Int %s)", es), P.sorts.zero(et))))
		fx.assume(app("Bool", "<=", c, Term{maxLenS, "Int"}))
	case *ssa.MakeMap:
		ref := fx.define(x, st.next)
		st.next = app("Int", "+", st.next, Term{allocStep, "Int"})
		mt := x.Type().Underlying().(*types.Map)
		ks := P.sorts.sortOf(mt.Key())
		pres := st.mapPresent(P, mt, ref)
		fx.assume(eq(pres, Term{fmt.Sprintf("((as const (Array %s Bool)) false)", ks), pres.Sort}))
		lh := st.getHeap(P, "ML$"+typeKey(mt), "(Array Int Int)")
		fx.assume(eq(app("Int", "select", lh, ref), Term{"0", "Int"}))
	case *ssa.MapUpdate:
		fx.mapUpdate(x)
	case *ssa.MakeClosure:
		ref := fx.define(x, st.next)
		st.next = app("Int", "+", st.next, Term{allocStep, "Int"})
		_ = ref
	case *ssa.TypeAssert:
		fx.typeAssert(x)
	case *ssa.Range:
		switch x.X.Type().Underlying().(type) {
		case *types.Basic:
			st.iters[x] = Term{"0", "Int"}
		case *types.Map:
			mt := x.X.Type().Underlying().(*types.Map)
			ks := P.sorts.sortOf(mt.Key())
			st.iters[x] = Term{fmt.Sprintf("((as const (Array %s Bool)) false)", ks), fmt.Sprintf("(Array %s Bool)", ks)}
		}
		fx.vals[x] = Term{"0", "Int"}
	case *ssa.Next:
		fx.next(x)
	case *ssa.Defer:
	case *ssa.RunDefers:
		// defers registered later run first: those outside the entry block, deepest dominator first
		rb := x.Block()
		var late []*ssa.Defer
		for _, d := range fx.lateDefers {
			db := d.Block()
			if fx.innermost(db) != nil {
				fx.errf("outside subset: defer registered inside a loop in %s", fx.key)
				continue
			}
			if db.Dominates(rb) {
				late = append(late, d)
			} else if blockReaches(db, rb) {
				fx.errf("outside subset: deferred call in %s is registered on some but not all paths to a function exit", fx.key)
			}
		}
		sort.SliceStable(late, func(i, j int) bool {
			bi, bj := late[i].Block(), late[j].Block()
			if bi == bj {
				return false
			}
			return bi.Dominates(bj)
		})
		for i := len(late) - 1; i >= 0; i-- {
			fx.call(nil, &late[i].Call)
		}
		for i := len(fx.defers) - 1; i >= 0; i-- {
			d := fx.defers[i]
			fx.call(nil, &d.Call)
		}
	case *ssa.If:
		c := fx.val(x.Cond)
		b := x.Block()
		fx.edgeCond[[2]int{b.Index, b.Succs[0].Index}] = c
		fx.edgeCond[[2]int{b.Index, b.Succs[1].Index}] = not(c)
		if b.Succs[0] == b.Succs[1] {
			fx.edgeCond[[2]int{b.Index, b.Succs[0].Index}] = tTrue
		}
	case *ssa.Jump:
		b := x.Block()
		fx.edgeCond[[2]int{b.Index, b.Succs[0].Index}] = tTrue
	case *ssa.Return:
		fx.ret(x)
	case *ssa.Panic:
		fx.panicInstr(x)
	default:
		fx.errf("outside subset: instruction %T (%s) in %s", in, in, fx.key)
		if v, ok := in.(ssa.Value); ok {
			fx.defineFresh(v)
		}
	}
}

// returnOrdinal: position of a return statement among the function's return statements, in source order
func (fx *FnCtx) returnOrdinal(x *ssa.Return) int {
	var ps []token.Pos
	for _, b := range fx.fn.Blocks {
		for _, in := range b.Instrs {
			if r, ok := in.(*ssa.Return); ok && r.Pos().IsValid() {
				ps = append(ps, r.Pos())
			}
		}
	}
	sort.Slice(ps, func(i, j int) bool { return ps[i] < ps[j] })
	for i, p := range ps {
		if p == x.Pos() {
			return i
		}
	}
	return -1
}

// siteOrdinal: position of this call among the calls of the same contracted callee in the function, in source order
func (fx *FnCtx) siteOrdinal(c *ssa.CallCommon, key string) int {
	var ps []token.Pos
	for _, b := range fx.fn.Blocks {
		for _, in := range b.Instrs {
			var cc *ssa.CallCommon
			switch x := in.(type) {
			case *ssa.Call:
				cc = &x.Call
			case *ssa.Defer:
				cc = &x.Call
			}
			if cc == nil {
				continue
			}
			if fc2, _, _ := fx.calleeContract(cc); fc2 != nil && fc2.Key == key {
				ps = append(ps, cc.Pos())
			}
		}
	}
	sort.Slice(ps, func(i, j int) bool { return ps[i] < ps[j] })
	for i, p := range ps {
		if p == c.Pos() {
			return i
		}
	}
	return -1
}

// blockReaches: some path leads from a to b
func blockReaches(a, b *ssa.BasicBlock) bool {
	seen := map[*ssa.BasicBlock]bool{}
	var walk func(x *ssa.BasicBlock) bool
	walk = func(x *ssa.BasicBlock) bool {
		if x == b {
			return true
		}
		if seen[x] {
			return false
		}
		seen[x] = true
		for _, s := range x.Succs {
			if walk(s) {
				return true
			}
		}
		return false
	}
	return walk(a)
}

func fieldName(x *ssa.FieldAddr) string {
	st := deref(x.X.Type()).Underlying().(*types.Struct)
	return st.Field(x.Field).Name()
}

func (fx *FnCtx) escapingInterior(v ssa.Value) {
	fx.errf("outside subset: interior pointer %s (%s) escapes in %s", v.Name(), v.Type(), fx.key)
}

func (fx *FnCtx) unop(x *ssa.UnOp) {
	P := fx.P
	st := fx.cur
	switch x.Op {
	case token.MUL:
		if al, ok := x.X.(*ssa.Alloc); ok && fx.aliasCellTarget(al) != nil {
			return // resolved where it is used as an address
		}
		l := fx.resolveAddr(x.X)
		if l.kind == locPtr {
			if _, isAlloc := x.X.(*ssa.Alloc); !isAlloc {
				if _, isFA := x.X.(*ssa.FieldAddr); !isFA {
					if _, isIA := x.X.(*ssa.IndexAddr); !isIA {
						if _, isFV := x.X.(*ssa.FreeVar); !isFV {
							fx.oblig("safe.nil", not(eq(l.base, Term{"0", "Int"})), "nil dereference", nil, "")
						}
					}
				}
			}
		}
		v := fx.define(x, st.read(P, l))
		if l.kind != locLocal {
			fx.assume(fx.typeAssume(v, x.Type(), st))
		}
	case token.NOT:
		fx.define(x, not(fx.val(x.X)))
	case token.SUB:
		r := app("Int", "-", fx.val(x.X))
		fx.arith(x, r, x.Type())
	case token.XOR:
		lo, hi, ok := intRange(x.Type())
		if ok && lo.Sign() == 0 {
			fx.define(x, app("Int", "-", bigLit(hi), fx.val(x.X)))
		} else {
			fx.define(x, app("Int", "-", app("Int", "-", fx.val(x.X)), Term{"1", "Int"}))
		}
	default:
		fx.errf("outside subset: unary %s in %s", x.Op, fx.key)
		fx.defineFresh(x)
	}
}

// arith defines v as r with an overflow obligation (int mode) or wrapping (noovf)
func (fx *FnCtx) arith(v ssa.Value, r Term, t types.Type) {
	lo, hi, ok := intRange(t)
	if !ok {
		fx.define(v, r)
		return
	}
	if fx.fc.NoOvf {
		m := new(big.Int).Add(new(big.Int).Sub(hi, lo), big.NewInt(1))
		if lo.Sign() == 0 {
			fx.define(v, app("Int", "wrap", r, bigLit(m)))
		} else {
			fx.define(v, app("Int", "swrap", r, bigLit(m)))
		}
		return
	}
	c := fx.define(v, r)
	if fx.fc.MathInts != "" {
		fx.notes["machine arithmetic treated as mathematical (no overflow obligations): "+fx.fc.MathInts] = true
		fx.assume(inRange(c, t))
		return
	}
	fx.oblig("safe.ovf", inRange(c, t), fmt.Sprintf("no overflow in %s arithmetic", t), nil, "")
}

func (fx *FnCtx) binop(x *ssa.BinOp) {
	a, b := fx.val(x.X), fx.val(x.Y)
	t := x.X.Type()
	switch x.Op {
	case token.EQL, token.NEQ:
		var r Term
		if a.Sort == "Str" {
			r = app("Bool", "streq", a, b)
		} else {
			r = eq(a, b)
		}
		if x.Op == token.NEQ {
			r = not(r)
		}
		fx.define(x, r)
		return
	case token.LSS, token.LEQ, token.GTR, token.GEQ:
		if a.Sort == "Str" {
			var r Term
			switch x.Op {
			case token.LSS:
				r = app("Bool", "slt", a, b)
			case token.GTR:
				r = app("Bool", "slt", b, a)
			case token.LEQ:
				r = not(app("Bool", "slt", b, a))
			default:
				r = not(app("Bool", "slt", a, b))
			}
			fx.define(x, r)
			return
		}
		op := map[token.Token]string{token.LSS: "<", token.LEQ: "<=", token.GTR: ">", token.GEQ: ">="}[x.Op]
		fx.define(x, app("Bool", op, a, b))
		return
	}
	if a.Sort == "Str" && x.Op == token.ADD {
		r := fx.define(x, app("Str", "scat", a, b))
		fx.assume(app("Bool", "<=", app("Int", "slen", r), Term{maxLenS, "Int"}))
		return
	}
	if a.Sort == "Bool" {
		switch x.Op {
		case token.AND, token.LAND:
			fx.define(x, and(a, b))
		case token.OR, token.LOR:
			fx.define(x, or(a, b))
		default:
			fx.errf("outside subset: bool op %s", x.Op)
			fx.defineFresh(x)
		}
		return
	}
	if a.Sort != "Int" {
		fx.errf("outside subset: binop %s on %s in %s", x.Op, a.Sort, fx.key)
		fx.defineFresh(x)
		return
	}
	lo, _, sized := intRange(t)
	unsigned := sized && lo.Sign() == 0
	switch x.Op {
	case token.ADD:
		fx.arith(x, app("Int", "+", a, b), x.Type())
	case token.SUB:
		fx.arith(x, app("Int", "-", a, b), x.Type())
	case token.MUL:
		fx.arith(x, app("Int", "*", a, b), x.Type())
	case token.QUO:
		fx.oblig("safe.div", not(eq(b, Term{"0", "Int"})), "division by zero", nil, "")
		if unsigned {
			fx.define(x, app("Int", "div", a, b))
		} else {
			fx.P.need["gdiv"] = true
			fx.arith(x, app("Int", "gdiv", a, b), x.Type())
		}
	case token.REM:
		fx.oblig("safe.div", not(eq(b, Term{"0", "Int"})), "division by zero", nil, "")
		if unsigned {
			fx.define(x, app("Int", "mod", a, b))
		} else {
			fx.P.need["gdiv"] = true
			fx.define(x, app("Int", "gmod", a, b))
		}
	case token.SHL:
		r := shlTerm(a, b)
		// Go: shifts never panic for unsigned counts; result truncated
		_, hi, _ := intRange(x.Type())
		if hi != nil {
			m := new(big.Int).Add(hi, big.NewInt(1))
			if unsigned {
				fx.define(x, app("Int", "wrap", r, bigLit(m)))
			} else {
				fx.oblig("safe.shift", app("Bool", "<=", Term{"0", "Int"}, b), "shift count non-negative", nil, "")
				fx.arith(x, r, x.Type())
			}
		} else {
			fx.define(x, r)
		}
	case token.SHR:
		if !unsigned {
			// arithmetic shift = floor division: SMT div floors for positive divisor
		}
		fx.define(x, shrTerm(a, b))
	case token.AND:
		fx.define(x, bandTerm(a, b))
	case token.OR:
		fx.define(x, app("Int", "bor", a, b))
	case token.XOR:
		fx.define(x, app("Int", "bxor", a, b))
	case token.AND_NOT:
		fx.define(x, app("Int", "-", a, app("Int", "band", a, b)))
	default:
		fx.errf("outside subset: binop %s in %s", x.Op, fx.key)
		fx.defineFresh(x)
	}
}

func (fx *FnCtx) lookup(x *ssa.Lookup) {
	P := fx.P
	st := fx.cur
	switch u := x.X.Type().Underlying().(type) {
	case *types.Basic: // string index
		s, i := fx.val(x.X), fx.val(x.Index)
		fx.oblig("safe.idx", and(app("Bool", "<=", Term{"0", "Int"}, i), app("Bool", "<", i, app("Int", "slen", s))), "string index in range", nil, "")
		fx.define(x, app("Int", "sat", s, i))
	case *types.Map:
		m, k := fx.val(x.X), fx.val(x.Index)
		vals := st.mapVals(P, u, m)
		pres := st.mapPresent(P, u, m)
		es := P.sorts.sortOf(u.Elem())
		p := app("Bool", "select", pres, k)
		// nil map: lookups yield zero
		isNil := eq(m, Term{"0", "Int"})
		v := ite(and(not(isNil), p), app(es, "select", vals, k), P.sorts.zero(u.Elem()))
		if x.CommaOk {
			v1 := fx.freshConst(x.Name()+"_v", es)
			fx.assumeDef(eq(v1, v))
			fx.assume(fx.typeAssume(v1, u.Elem(), st))
			ok := fx.freshConst(x.Name()+"_ok", "Bool")
			fx.assumeDef(eq(ok, and(not(isNil), p)))
			fx.tuples[x] = []Term{v1, ok}
		} else {
			c := fx.define(x, v)
			fx.assume(fx.typeAssume(c, u.Elem(), st))
		}
	}
}

func (fx *FnCtx) slice(x *ssa.Slice) {
	P := fx.P
	zero := Term{"0", "Int"}
	lo := zero
	if x.Low != nil {
		lo = fx.val(x.Low)
	}
	switch u := x.X.Type().Underlying().(type) {
	case *types.Basic:
		s := fx.val(x.X)
		hi := app("Int", "slen", s)
		if x.High != nil {
			hi = fx.val(x.High)
		}
		fx.oblig("safe.slice", and(app("Bool", "<=", zero, lo), app("Bool", "<=", lo, hi), app("Bool", "<=", hi, app("Int", "slen", s))), "string slice bounds", nil, "")
		fx.define(x, app("Str", "ssub", s, lo, hi))
	case *types.Slice:
		s := fx.val(x.X)
		hi := app("Int", "s_len", s)
		if x.High != nil {
			hi = fx.val(x.High)
		}
		cp := app("Int", "s_cap", s)
		mx := cp
		if x.Max != nil {
			mx = fx.val(x.Max)
		}
		fx.oblig("safe.slice", and(app("Bool", "<=", zero, lo), app("Bool", "<=", lo, hi), app("Bool", "<=", hi, mx), app("Bool", "<=", mx, cp)), "slice bounds", nil, "")
		r := fx.define(x, app("Slice", "mk_slice", app("Int", "s_arr", s), app("Int", "+", app("Int", "s_off", s), lo), app("Int", "-", hi, lo), app("Int", "-", mx, lo)))
		if x.Low != nil {
			// element k of the view s[lo:] is element lo+k of s: a consequence of eidx's definition, stated with a
			// trigger on the view so that quantified facts about s (loop invariants) are instantiated for the view
			fx.assume(Term{fmt.Sprintf("(forall ((k Int)) (! (= (eidx (s_off %s) k) (eidx (s_off %s) (+ %s k))) :pattern ((eidx (s_off %s) k))))", r.S, s.S, lo.S, r.S), "Bool"})
		}
	case *types.Pointer:
		at := u.Elem().Underlying().(*types.Array)
		l := fx.resolveAddr(x.X)
		if l.kind != locPtr || len(l.path) != 0 {
			fx.errf("outside subset: slicing a non-heap array in %s", fx.key)
			fx.defineFresh(x)
			return
		}
		n := intLit(at.Len())
		hi := n
		if x.High != nil {
			hi = fx.val(x.High)
		}
		fx.oblig("safe.slice", and(app("Bool", "<=", zero, lo), app("Bool", "<=", lo, hi), app("Bool", "<=", hi, n)), "array slice bounds", nil, "")
		fx.define(x, app("Slice", "mk_slice", l.base, lo, app("Int", "-", hi, lo), app("Int", "-", n, lo)))
	default:
		fx.errf("outside subset: slice of %s", x.X.Type())
		fx.defineFresh(x)
	}
	_ = P
}

func (fx *FnCtx) convert(x *ssa.Convert) {
	P := fx.P
	st := fx.cur
	from, to := x.X.Type().Underlying(), x.Type().Underlying()
	v := fx.val(x.X)
	fb, fok := from.(*types.Basic)
	tb, tok := to.(*types.Basic)
	switch {
	case fok && tok && fb.Info()&types.IsInteger != 0 && tb.Info()&types.IsInteger != 0:
		lo, hi, ok := intRange(x.Type())
		if !ok {
			fx.vals[x] = v
			return
		}
		flo, fhi, fk := intRange(x.X.Type())
		if fk && flo.Cmp(lo) >= 0 && fhi.Cmp(hi) <= 0 {
			fx.vals[x] = v
			return
		}
		m := new(big.Int).Add(new(big.Int).Sub(hi, lo), big.NewInt(1))
		if lo.Sign() == 0 {
			fx.define(x, app("Int", "wrap", v, bigLit(m)))
		} else {
			fx.define(x, app("Int", "swrap", v, bigLit(m)))
		}
	case fok && tok && fb.Info()&types.IsString != 0 && tb.Info()&types.IsString != 0:
		fx.vals[x] = v
	case fok && tok && fb.Info()&types.IsInteger != 0 && tb.Info()&types.IsString != 0:
		// string(rune)
		P.need["srune"] = true
		fx.define(x, app("Str", "srune", v))
	case tok && tb.Info()&types.IsString != 0:
		// string([]byte) or string([]rune)
		sl, ok := from.(*types.Slice)
		if !ok || sl.Elem().Underlying().(*types.Basic).Kind() != types.Uint8 {
			fx.errf("outside subset: conversion %s -> string in %s", x.X.Type(), fx.key)
			fx.defineFresh(x)
			return
		}
		P.need["str_of_bytes"] = true
		h := st.getHeap(P, elemComp(types.Typ[types.Uint8]), "(Array Int (Array Int Int))")
		r := fx.define(x, app("Str", "str_of_bytes", app("(Array Int Int)", "select", h, app("Int", "s_arr", v)), app("Int", "s_off", v), app("Int", "s_len", v)))
		_ = r
	case fok && fb.Info()&types.IsString != 0:
		sl, ok := to.(*types.Slice)
		if !ok || sl.Elem().Underlying().(*types.Basic).Kind() != types.Uint8 {
			fx.errf("outside subset: conversion string -> %s in %s", x.Type(), fx.key)
			fx.defineFresh(x)
			return
		}
		// []byte(s): fresh array with the bytes of s
		arr := st.next
		st.next = app("Int", "+", st.next, Term{allocStep, "Int"})
		n := app("Int", "slen", v)
		s := fx.define(x, app("Slice", "mk_slice", arr, Term{"0", "Int"}, n, n))
		P.need["bytes_of_str"] = true
		h := st.getHeap(P, elemComp(types.Typ[types.Uint8]), "(Array Int (Array Int Int))")
		st.setHeap("E$uint8", app(h.Sort, "store", h, app("Int", "s_arr", s), app("(Array Int Int)", "bytes_of_str", v)))
	default:
		if P.sorts.sortOf(x.X.Type()) == P.sorts.sortOf(x.Type()) {
			fx.vals[x] = v
			return
		}
		fx.errf("outside subset: conversion %s -> %s in %s", x.X.Type(), x.Type(), fx.key)
		fx.defineFresh(x)
	}
}

func (fx *FnCtx) makeInterface(x *ssa.MakeInterface) {
	P := fx.P
	st := fx.cur
	t := x.X.Type()
	id := intLit(int64(P.sorts.typeID(t)))
	v := fx.val(x.X)
	switch t.Underlying().(type) {
	case *types.Pointer, *types.Map, *types.Signature, *types.Chan:
		fx.define(x, app("Iface", "mk_iface", id, v))
		return
	}
	// boxed value
	ref := st.next
	st.next = app("Int", "+", st.next, Term{allocStep, "Int"})
	r := fx.define(x, app("Iface", "mk_iface", id, ref))
	comp := "B$" + typeKey(t)
	hs := fmt.Sprintf("(Array Int %s)", v.Sort)
	h := st.getHeap(P, comp, hs)
	// boxes are immutable: record content as an assumption on a fresh cell instead of a heap write
	fx.assume(eq(app(v.Sort, "select", h, app("Int", "i_val", r)), v))
}

func (fx *FnCtx) typeAssert(x *ssa.TypeAssert) {
	P := fx.P
	st := fx.cur
	v := fx.val(x.X)
	at := x.AssertedType
	var okT Term
	var res Term
	if _, isIface := at.Underlying().(*types.Interface); isIface {
		// assertion to interface type: succeeds iff non-nil and dynamic type implements it (statically unknown)
		fx.fresh++
		impl := fx.freshConst("implements", "Bool")
		okT = and(not(eq(v, Term{"nilif", "Iface"})), impl)
		res = v
	} else {
		id := intLit(int64(P.sorts.typeID(at)))
		okT = eq(app("Int", "i_typ", v), id)
		switch at.Underlying().(type) {
		case *types.Pointer, *types.Map, *types.Signature, *types.Chan:
			res = app("Int", "i_val", v)
		default:
			s := P.sorts.sortOf(at)
			h := st.getHeap(P, "B$"+typeKey(at), fmt.Sprintf("(Array Int %s)", s))
			res = app(s, "select", h, app("Int", "i_val", v))
		}
	}
	zero := P.sorts.zero(at)
	if x.CommaOk {
		ok := fx.freshConst(x.Name()+"_ok", "Bool")
		fx.assumeDef(eq(ok, okT))
		r := fx.freshConst(x.Name()+"_v", res.Sort)
		fx.assumeDef(eq(r, ite(ok, res, zero)))
		fx.assume(fx.typeAssume(r, at, st))
		fx.tuples[x] = []Term{r, ok}
		return
	}
	fx.oblig("safe.assert", okT, fmt.Sprintf("type assertion to %s succeeds", at), nil, "")
	r := fx.define(x, res)
	fx.assume(fx.typeAssume(r, at, st))
}

func (fx *FnCtx) mapUpdate(x *ssa.MapUpdate) {
	P := fx.P
	st := fx.cur
	mt := x.Map.Type().Underlying().(*types.Map)
	m, k, v := fx.val(x.Map), fx.val(x.Key), fx.val(x.Value)
	fx.oblig("safe.nil", not(eq(m, Term{"0", "Int"})), "assignment to entry in nil map", nil, "")
	fx.freshWrite = isFreshBase(x.Map)
	defer func() { fx.freshWrite = false }()
	ks, vs := P.sorts.sortOf(mt.Key()), P.sorts.sortOf(mt.Elem())
	inner := fmt.Sprintf("(Array %s %s)", ks, vs)
	comp := "M$" + typeKey(mt)
	h := st.getHeap(P, comp, fmt.Sprintf("(Array Int %s)", inner))
	st.setHeap(comp, app(h.Sort, "store", h, m, app(inner, "store", app(inner, "select", h, m), k, v)))
	pinner := fmt.Sprintf("(Array %s Bool)", ks)
	pcomp := "MP$" + typeKey(mt)
	ph := st.getHeap(P, pcomp, fmt.Sprintf("(Array Int %s)", pinner))
	was := app("Bool", "select", app(pinner, "select", ph, m), k)
	st.setHeap(pcomp, app(ph.Sort, "store", ph, m, app(pinner, "store", app(pinner, "select", ph, m), k, tTrue)))
	lcomp := "ML$" + typeKey(mt)
	lh := st.getHeap(P, lcomp, "(Array Int Int)")
	st.setHeap(lcomp, app(lh.Sort, "store", lh, m, ite(was, app("Int", "select", lh, m), app("Int", "+", app("Int", "select", lh, m), Term{"1", "Int"}))))
}

func (fx *FnCtx) next(x *ssa.Next) {
	P := fx.P
	st := fx.cur
	rng, ok := x.Iter.(*ssa.Range)
	if !ok {
		fx.errf("internal: next on non-range")
		return
	}
	if x.IsString {
		P.need["utf8"] = true
		s := fx.val(rng.X)
		pos := st.iters[rng]
		okT := fx.freshConst(x.Name()+"_ok", "Bool")
		fx.assumeDef(eq(okT, app("Bool", "<", pos, app("Int", "slen", s))))
		k := fx.freshConst(x.Name()+"_k", "Int")
		fx.assumeDef(eq(k, pos))
		r := fx.freshConst(x.Name()+"_r", "Int")
		fx.assumeDef(eq(r, app("Int", "runeat", s, pos)))
		npos := fx.freshConst(x.Name()+"_np", "Int")
		fx.assumeDef(eq(npos, ite(okT, app("Int", "+", pos, app("Int", "runesz", s, pos)), pos)))
		st.iters[rng] = npos
		fx.tuples[x] = []Term{okT, k, r}
		return
	}
	mt := rng.X.Type().Underlying().(*types.Map)
	m := fx.val(rng.X)
	visited := st.iters[rng]
	ks, vs := P.sorts.sortOf(mt.Key()), P.sorts.sortOf(mt.Elem())
	okT := fx.freshConst(x.Name()+"_ok", "Bool")
	k := fx.freshConst(x.Name()+"_k", ks)
	pres := st.mapPresent(P, mt, m)
	vals := st.mapVals(P, mt, m)
	notNil := not(eq(m, Term{"0", "Int"}))
	fx.assume(implies(okT, and(notNil, app("Bool", "select", pres, k), not(app("Bool", "select", visited, k)))))
	qk := Term{"qk", ks}
	fx.assume(implies(not(okT), Term{fmt.Sprintf("(forall ((qk %s)) (! (=> (and %s (select %s qk)) (select %s qk)) :pattern ((select %s qk))))", ks, notNil.S, pres.S, visited.S, visited.S), "Bool"}))
	_ = qk
	v := fx.freshConst(x.Name()+"_v", vs)
	fx.assumeDef(eq(v, app(vs, "select", vals, k)))
	fx.assume(fx.typeAssume(k, mt.Key(), st))
	fx.assume(fx.typeAssume(v, mt.Elem(), st))
	nv := fx.freshConst(x.Name()+"_vis", visited.Sort)
	fx.assumeDef(eq(nv, ite(okT, app(visited.Sort, "store", visited, k, tTrue), visited)))
	st.iters[rng] = nv
	fx.tuples[x] = []Term{okT, k, v}
}

func (fx *FnCtx) ret(x *ssa.Return) {
	sig := fx.fn.Signature
	var results []Val
	for i, r := range x.Results {
		results = append(results, Val{T: fx.val(r), GoT: sig.Results().At(i).Type()})
	}
	for _, h := range fx.fc.ExitHints {
		env := fx.env(fx.cur)
		env.results = results
		// locals are resolved where the return stands; one that is not in scope there denotes an arbitrary value
		if x.Pos().IsValid() {
			env.pos = x.Pos()
			env.laxLocals = true
		}
		for n, pv := range fx.paramTerm {
			env.bound[n] = pv
		}
		v, err := env.elab(h)
		if err != nil {
			fx.errf("binding failure: %s hint exit: %v", fx.key, err)
			continue
		}
		if hf := map[string]string{"Int": "hintI", "Str": "hintS", "Bool": "hintB"}[v.T.Sort]; hf != "" {
			fx.assume(Term{"(" + hf + " " + v.T.S + ")", "Bool"})
		}
	}
	for i, c := range fx.fc.Ensures {
		if c.Assumed != "" {
			continue // assumed postcondition: used by callers, listed as an assumption, not checked here
		}
		if c.Site >= 0 && c.Site != fx.returnOrdinal(x) {
			continue
		}
		env := fx.env(fx.cur)
		if c.Site >= 0 && x.Pos().IsValid() {
			env.pos = x.Pos()
		}
		env.results = results
		// in postconditions, parameter names denote entry values
		for n, pv := range fx.paramTerm {
			env.bound[n] = pv
		}
		t, err := env.elabBool(c.E)
		if err != nil {
			fx.errf("binding failure: %s ensures %d (%s): %v", fx.key, i, c.Text, err)
			continue
		}
		name := fmt.Sprintf("%s#post.%d@r%d", fx.key, i, fx.counter["ret"])
		if c.Name != "" {
			name = fmt.Sprintf("%s#post.%s@r%d", fx.key, c.Name, fx.counter["ret"])
		}
		fx.obligNamed(name, t, c.Text, c.Props, c.Known)
	}
	fx.counter["ret"]++
	fx.retStates = append(fx.retStates, retState{x.Block(), fx.cur.clone()})
}

func (fx *FnCtx) panicInstr(x *ssa.Panic) {
	// allowed when a panics_if clause covers it
	var conds []Term
	for _, c := range fx.fc.PanicsIf {
		env := fx.env(fx.entry)
		t, err := env.elabBool(c.E)
		if err != nil {
			fx.errf("binding failure: %s panics_if (%s): %v", fx.key, c.Text, err)
			continue
		}
		conds = append(conds, t)
	}
	fx.oblig("safe.panic", or(conds...), "explicit panic is unreachable (or covered by panics_if)", nil, "")
}

// ---------- calls ----------

// calleeContract resolves the contract applying to a call; callee may be nil (extern/iface).
func (fx *FnCtx) calleeContract(c *ssa.CallCommon) (*FuncContract, *ssa.Function, *ssa.MakeClosure) {
	P := fx.P
	if c.IsInvoke() {
		tn := typeKey(c.Value.Type())
		if i := strings.LastIndex(tn, "."); i >= 0 {
			tn = tn[i+1:]
		}
		if fc, ok := P.ifaces[tn+"."+c.Method.Name()]; ok {
			return fc, nil, nil
		}
		return nil, nil, nil
	}
	var callee *ssa.Function
	var mc *ssa.MakeClosure
	switch v := c.Value.(type) {
	case *ssa.Function:
		callee = v
	case *ssa.MakeClosure:
		callee = v.Fn.(*ssa.Function)
		mc = v
	case *ssa.UnOp:
		// load of a local holding a single closure
		if a, ok := v.X.(*ssa.Alloc); ok && v.Op == token.MUL {
			var stored ssa.Value
			n := 0
			for _, r := range *a.Referrers() {
				if s, ok := r.(*ssa.Store); ok && s.Addr == a {
					stored = s.Val
					n++
				}
			}
			if m, ok := stored.(*ssa.MakeClosure); ok && n == 1 {
				callee = m.Fn.(*ssa.Function)
				mc = m
			} else if f, ok := stored.(*ssa.Function); ok && n == 1 {
				callee = f
			}
		}
	}
	if callee == nil {
		// call through a function-typed parameter with a declared funcparam contract
		if ld, ok := c.Value.(*ssa.UnOp); ok && ld.Op == token.MUL {
			if a, ok := ld.X.(*ssa.Alloc); ok && fx.fc.FuncParams != nil {
				if sub, ok := fx.fc.FuncParams[a.Comment]; ok {
					for _, p := range fx.fn.Params {
						if p.Name() == a.Comment {
							return sub, nil, nil
						}
					}
				}
			}
		}
		return nil, nil, nil
	}
	if callee.Pkg == nil {
		// synthetic wrapper / bound method
		return nil, callee, mc
	}
	k := callee.Pkg.Pkg.Path() + "|" + fnKey(callee)
	if fc, ok := P.contracts[k]; ok {
		return fc, callee, mc
	}
	// extern: by short package name
	path := callee.Pkg.Pkg.Path()
	base := path
	if i := strings.LastIndex(path, "/"); i >= 0 {
		base = path[i+1:]
	}
	key := fnKey(callee)
	var ek string
	if strings.HasPrefix(key, "(*") {
		ek = "(*" + base + "." + key[2:]
	} else if i := strings.Index(key, "."); i > 0 && callee.Signature.Recv() != nil {
		ek = "(" + base + "." + key[:i] + ")" + key[i:]
	} else {
		ek = base + "." + key
	}
	if fc, ok := P.externs[ek]; ok {
		return fc, callee, mc
	}
	return nil, callee, mc
}

func (fx *FnCtx) call(v *ssa.Call, c *ssa.CallCommon) {
	P := fx.P
	st := fx.cur
	if b, ok := c.Value.(*ssa.Builtin); ok {
		fx.builtin(v, c, b)
		return
	}
	fc, callee, mc := fx.calleeContract(c)
	// argument terms
	var args []Val
	if c.IsInvoke() {
		args = append(args, Val{T: fx.val(c.Value), GoT: c.Value.Type()})
	}
	for _, a := range c.Args {
		args = append(args, Val{T: fx.val(a), GoT: a.Type()})
	}
	sig := c.Signature()
	var resT []types.Type
	for i := 0; i < sig.Results().Len(); i++ {
		resT = append(resT, sig.Results().At(i).Type())
	}
	calleeName := ""
	if callee != nil {
		calleeName = callee.String()
	} else if c.IsInvoke() {
		calleeName = typeKey(c.Value.Type()) + "." + c.Method.Name()
	} else {
		calleeName = "dynamic:" + c.Value.Name()
	}
	setResults := func(rs []Term) {
		if v == nil {
			return
		}
		if len(rs) == 1 {
			fx.vals[v] = rs[0]
		} else if len(rs) > 1 {
			fx.tuples[v] = rs
		}
	}
	if fc == nil {
		// no contract: havoc everything, fresh results
		fx.notes["uncontracted callee "+calleeName+" (result and heap havoced)"] = true
		fx.havocAll(st)
		var rs []Term
		for i, t := range resT {
			r := fx.freshConst(fmt.Sprintf("call_%s_r%d", shortName(calleeName), i), P.sorts.sortOf(t))
			fx.assume(fx.typeAssume(r, t, st))
			rs = append(rs, r)
		}
		setResults(rs)
		return
	}
	fx.callees[calleeName] = true
	fx.usedFC[fc] = true
	// parameter names
	var pnames []string
	var cpkg *types.Package
	if callee != nil && fc.Kind == "func" {
		for _, p := range callee.Params {
			pnames = append(pnames, p.Name())
		}
		cpkg = callee.Pkg.Pkg
	} else {
		for _, p := range fc.Params {
			pnames = append(pnames, p.Name)
		}
		if callee != nil && callee.Pkg != nil {
			cpkg = callee.Pkg.Pkg
		}
		if callee != nil && len(pnames) != len(args) {
			pnames = nil
			for _, p := range callee.Params {
				pnames = append(pnames, p.Name())
			}
		}
	}
	if len(pnames) != len(args) {
		fx.errf("contract of %s declares %d parameters, call has %d", fc.Key, len(pnames), len(args))
		return
	}
	if fc.Kind != "func" {
		cpkg = fx.fn.Pkg.Pkg
		if fc.Pkg != "" {
			cpkg = P.pkgOf(fc.Pkg)
		}
		if cpkg == nil {
			cpkg = fx.fn.Pkg.Pkg
		}
	}
	// ghost snapshots of the callee are unknown values for the caller
	ghostVals := map[string]Val{}
	for _, ls := range fc.Lets {
		if ls.Type == "" {
			continue
		}
		gt, err := P.resolveType(cpkg, ls.Type)
		if err != nil {
			fx.errf("contract of %s: let %s: %v", fc.Key, ls.Name, err)
			continue
		}
		ghostVals[ls.Name] = Val{T: fx.freshConst("callghost_"+ls.Name, P.sorts.sortOf(gt)), GoT: gt}
	}
	mkEnv := func(cur, old *State) *Env {
		env := &Env{P: P, st: cur, old: old, bound: map[string]Val{}, pkg: cpkg}
		for n, gv := range ghostVals {
			env.bound[n] = gv
		}
		for i, n := range pnames {
			env.bound[n] = args[i]
		}
		if mc != nil {
			for i, fv := range callee.FreeVars {
				bt := deref(fv.Type())
				ref := fx.val(mc.Bindings[i])
				env.bound[fv.Name()] = Val{T: ref, DerefT: bt}
			}
		}
		return env
	}
	n := fx.callCount[fc.Key]
	fx.callCount[fc.Key] = n + 1
	pre := st.clone()
	// call-site assumptions declared by the caller's contract (listed among the assumptions of the run)
	for _, cs := range fx.fc.Calls {
		if cs.Assumed == "" || cs.Callee != fc.Key || !(cs.Nth < 0 || cs.Nth == fx.siteOrdinal(c, fc.Key)) {
			continue
		}
		env := fx.env(st)
		if cp := c.Pos(); cp.IsValid() {
			env.pos = cp
			env.laxLocals = true
		}
		for i, pn := range pnames {
			env.bound["arg_"+pn] = args[i]
			env.bound[fmt.Sprintf("arg%d", i)] = args[i]
		}
		t, err := env.elabBool(cs.Req.E)
		if err != nil {
			fx.errf("binding failure: call assumes clause for %s in %s: %v", fc.Key, fx.key, err)
			continue
		}
		fx.assume(t)
		fx.notes[fmt.Sprintf("ASSUMED at the call of %s in %s: %s (%s)", fc.Key, fx.key, cs.Req.Text, cs.Assumed)] = true
	}
	for i, r := range fc.Requires {
		if r.Assumed != "" {
			continue // representation invariant assumed by the callee's body, not checked here (listed)
		}
		env := mkEnv(st, pre)
		t, err := env.elabBool(r.E)
		if err != nil {
			fx.errf("binding failure: requires %d of %s at call in %s: %v", i, fc.Key, fx.key, err)
			continue
		}
		fx.obligNamed(fmt.Sprintf("%s#pre@%s.%d.%d", fx.key, fc.Key, i, n), t, "requires of "+fc.Key+": "+r.Text, r.Props, r.Known)
	}
	// extra call-site requirements declared by the caller's contract
	csOrd := 0
	for _, cs := range fx.fc.Calls {
		if cs.Assumed == "" && cs.Callee == fc.Key && (cs.Nth < 0 || cs.Nth == fx.siteOrdinal(c, fc.Key)) {
			lbl := cs.Req.Name
			if lbl == "" {
				lbl = fmt.Sprintf("c%d", csOrd)
			}
			csOrd++
			env := fx.env(st)
			// names are resolved where the call stands; a local that is not in scope there (declared later
			// in the body) denotes an arbitrary value, so the requirement must hold whatever it is
			if cp := c.Pos(); cp.IsValid() {
				env.pos = cp
				env.laxLocals = true
			}
			for i, pn := range pnames {
				env.bound["arg_"+pn] = args[i]
				env.bound[fmt.Sprintf("arg%d", i)] = args[i]
			}
			// entry_<p>: the value parameter p had on entry (p itself is the variable's current value)
			for n, pv := range fx.paramTerm {
				env.bound["entry_"+n] = pv
			}
			t, err := env.elabBool(cs.Req.E)
			if err != nil {
				fx.errf("binding failure: call clause for %s in %s: %v", fc.Key, fx.key, err)
				continue
			}
			fx.obligNamed(fmt.Sprintf("%s#callreq.%s@%s.%d", fx.key, lbl, fc.Key, n), t, cs.Req.Text, cs.Req.Props, cs.Req.Known)
		}
	}
	// recursion: variant must decrease
	if callee == fx.fn && fx.fc.Decr != nil {
		envE := fx.env(fx.entry)
		v0, err0 := envE.elab(fx.fc.Decr.E)
		envC := mkEnv(st, pre)
		v1, err1 := envC.elab(fx.fc.Decr.E)
		if err0 == nil && err1 == nil {
			fx.obligNamed(fmt.Sprintf("%s#dec@call.%d", fx.key, n), and(app("Bool", "<=", Term{"0", "Int"}, v0.T), app("Bool", "<", v1.T, v0.T)), "recursive call decreases "+fx.fc.Decr.Text, nil, "")
		} else {
			fx.errf("binding failure: decreases of %s: %v %v", fx.key, err0, err1)
		}
	} else if callee == fx.fn {
		fx.obligNamed(fmt.Sprintf("%s#dec@call.%d", fx.key, n), tFalse, "recursive function without decreases clause", nil, "")
	}
	// effects
	if (!fc.Pure || fc.Allocates) && !fc.ModAll {
		nn := fx.freshConst("next", "Int")
		fx.assume(app("Bool", "<=", st.next, nn))
		st.next = nn
	}
	if fc.ModAll {
		fx.havocAll(st)
	} else {
		for _, m := range fc.Modifies {
			if callee != nil && mc != nil {
				if fv := freeVarNamed(callee, m); fv != nil {
					if mt, isMap := deref(fv.Type()).Underlying().(*types.Map); isMap {
						for _, pre := range []string{"M$", "MP$", "ML$"} {
							cn := pre + typeKey(mt)
							fx.fresh++
							st.heap[cn] = Term{fmt.Sprintf("Hc_%s_%d", sanitize(cn), fx.fresh), ""}
							fx.havocNext[st.heap[cn].S] = st.next
							fx.written[cn] = true
							if srt, ok := fx.compSort[cn]; ok {
								_ = st.getHeap(P, cn, srt)
							}
						}
						continue
					}
					// cell-level havoc of one captured variable
					var bind ssa.Value
					for i, f := range callee.FreeVars {
						if f == fv {
							bind = mc.Bindings[i]
						}
					}
					bt := deref(fv.Type())
					nv := fx.freshConst("cap_"+fv.Name(), P.sorts.sortOf(bt))
					fx.assume(fx.typeAssume(nv, bt, st))
					fx.freshWrite = isFreshBase(bind)
					st.write(P, &Loc{kind: locPtr, base: fx.val(bind), rootT: bt}, nv)
					fx.freshWrite = false
					continue
				}
			}
			cs, err := P.modComps(cpkg, m)
			if err != nil {
				fx.errf("contract of %s: %v", fc.Key, err)
				continue
			}
			for _, cn := range cs {
				fx.fresh++
				st.heap[cn] = Term{fmt.Sprintf("Hc_%s_%d", sanitize(cn), fx.fresh), ""}
				fx.havocNext[st.heap[cn].S] = st.next
				fx.written[cn] = true
				if s, ok := fx.compSort[cn]; ok {
					_ = st.getHeap(P, cn, s)
				} else if t, ok := compTypes[cn]; ok && strings.HasPrefix(cn, "E$") {
					// an element component this function never touches itself: known by its element type
					_ = st.getHeap(P, cn, elemSort(P, t))
				}
			}
		}
	}
	// results
	var rs []Term
	pf := P.pureFuncFor(fc, callee)
	for i, t := range resT {
		var r Term
		if pf != nil && len(pf.sym) == len(resT) {
			var ats []Term
			for _, a := range args {
				ats = append(ats, a.T)
			}
			r = fx.freshConst(fmt.Sprintf("call_%s_r%d", shortName(calleeName), i), P.sorts.sortOf(t))
			fx.assumeDef(eq(r, app(P.sorts.sortOf(t), pf.sym[i], ats...)))
		} else {
			r = fx.freshConst(fmt.Sprintf("call_%s_r%d", shortName(calleeName), i), P.sorts.sortOf(t))
		}
		fx.assume(fx.typeAssume(r, t, st))
		rs = append(rs, r)
	}
	if c.IsInvoke() && fc.Kind == "iface" && fc.Pure && len(rs) == 1 {
		// a pure interface method is a function of the receiver value and the arguments
		if sym, _, err := P.ifacePureSym(c.Value.Type(), c.Method.Name()); err == nil {
			var ats []Term
			for _, a := range args {
				ats = append(ats, a.T)
			}
			fx.assumeDef(eq(rs[0], app(rs[0].Sort, sym, ats...)))
		}
	}
	setResults(rs)
	var resVals []Val
	for i, r := range rs {
		resVals = append(resVals, Val{T: r, GoT: resT[i]})
	}
	for i, e := range fc.Ensures {
		if e.Internal {
			continue
		}
		env := mkEnv(st, pre)
		env.results = resVals
		// named results of the callee
		if callee != nil && fc.Kind == "func" {
			sigc := callee.Signature
			for j := 0; j < sigc.Results().Len() && j < len(resVals); j++ {
				if nm := sigc.Results().At(j).Name(); nm != "" && nm != "_" {
					env.bound[nm] = resVals[j]
				}
			}
		} else {
			for j, rb := range fc.Results {
				if j < len(resVals) && rb.Name != "" {
					env.bound[rb.Name] = resVals[j]
				}
			}
		}
		t, err := env.elabBool(e.E)
		if err != nil {
			fx.errf("binding failure: ensures %d of %s at call in %s: %v", i, fc.Key, fx.key, err)
			continue
		}
		fx.assume(t)
	}
}

func (P *Prog) pureFuncFor(fc *FuncContract, callee *ssa.Function) *pureFunc {
	if !fc.Pure {
		return nil
	}
	for _, pf := range P.pures {
		if pf.fc == fc {
			return pf
		}
	}
	return nil
}

func shortName(s string) string {
	if i := strings.LastIndex(s, "."); i >= 0 {
		s = s[i+1:]
	}
	return sanitize(s)
}

func (fx *FnCtx) havocAll(st *State) {
	fx.fresh++
	st.base = fmt.Sprintf("HA%d", fx.fresh)
	st.heap = map[string]Term{}
	fx.written["*"] = true
	nn := fx.freshConst("next", "Int")
	fx.assume(app("Bool", "<=", st.next, nn))
	st.next = nn
	fx.havocNext[st.base] = nn
}

func (fx *FnCtx) builtin(v *ssa.Call, c *ssa.CallCommon, b *ssa.Builtin) {
	P := fx.P
	st := fx.cur
	zero := Term{"0", "Int"}
	switch b.Name() {
	case "len":
		a := fx.val(c.Args[0])
		switch u := c.Args[0].Type().Underlying().(type) {
		case *types.Basic:
			fx.define(v, app("Int", "slen", a))
		case *types.Slice:
			fx.define(v, app("Int", "s_len", a))
		case *types.Map:
			lh := st.getHeap(P, "ML$"+typeKey(u), "(Array Int Int)")
			r := fx.define(v, ite(eq(a, zero), zero, app("Int", "select", lh, a)))
			fx.assume(app("Bool", "<=", zero, r))
		case *types.Array:
			fx.define(v, intLit(u.Len()))
		case *types.Pointer:
			fx.define(v, intLit(u.Elem().Underlying().(*types.Array).Len()))
		default:
			fx.errf("outside subset: len of %s", c.Args[0].Type())
			fx.defineFresh(v)
		}
	case "cap":
		a := fx.val(c.Args[0])
		fx.define(v, app("Int", "s_cap", a))
	case "append":
		fx.appendCall(v, c)
	case "copy":
		fx.copyCall(v, c)
	case "delete":
		mt := c.Args[0].Type().Underlying().(*types.Map)
		m, k := fx.val(c.Args[0]), fx.val(c.Args[1])
		ks := P.sorts.sortOf(mt.Key())
		pinner := fmt.Sprintf("(Array %s Bool)", ks)
		pcomp := "MP$" + typeKey(mt)
		ph := st.getHeap(P, pcomp, fmt.Sprintf("(Array Int %s)", pinner))
		was := and(not(eq(m, zero)), app("Bool", "select", app(pinner, "select", ph, m), k))
		lcomp := "ML$" + typeKey(mt)
		lh := st.getHeap(P, lcomp, "(Array Int Int)")
		st.setHeap(pcomp, ite(eq(m, zero), ph, app(ph.Sort, "store", ph, m, app(pinner, "store", app(pinner, "select", ph, m), k, tFalse))))
		st.setHeap(lcomp, ite(was, app(lh.Sort, "store", lh, m, app("Int", "-", app("Int", "select", lh, m), Term{"1", "Int"})), lh))
	case "panic":
		fx.oblig("safe.panic", tFalse, "explicit panic is unreachable", nil, "")
	case "ssa:wrapnilchk":
		fx.vals[v] = fx.val(c.Args[0])
	case "ssa:deferstack":
		fx.vals[v] = zero
	case "min", "max":
		a, bb := fx.val(c.Args[0]), fx.val(c.Args[1])
		if b.Name() == "min" {
			fx.define(v, ite(app("Bool", "<=", a, bb), a, bb))
		} else {
			fx.define(v, ite(app("Bool", ">=", a, bb), a, bb))
		}
	case "print", "println":
	default:
		fx.errf("outside subset: builtin %s in %s", b.Name(), fx.key)
		if v != nil {
			fx.defineFresh(v)
		}
	}
}

func (fx *FnCtx) appendCall(v *ssa.Call, c *ssa.CallCommon) {
	P := fx.P
	st := fx.cur
	if cst, ok := c.Args[0].(*ssa.Const); (ok && cst.Value == nil) || isFreshBase(c.Args[0]) {
		fx.freshWrite = true
		defer func() { fx.freshWrite = false }()
	}
	s := fx.val(c.Args[0])
	et := c.Args[0].Type().Underlying().(*types.Slice).Elem()
	es := P.sorts.sortOf(et)
	is := fmt.Sprintf("(Array Int %s)", es)
	comp := elemComp(et)
	hs := elemSort(P, et)
	h := st.getHeap(P, comp, hs)
	sl := app("Int", "s_len", s)
	// appended part
	var addLen Term
	var elemAt func(k Term) Term
	single := false
	nconst := -1
	var singleVal Term
	t := c.Args[1]
	if isString(t.Type()) {
		tv := fx.val(t)
		addLen = app("Int", "slen", tv)
		elemAt = func(k Term) Term { return app("Int", "sat", tv, k) }
	} else {
		tv := fx.val(t)
		addLen = app("Int", "s_len", tv)
		// varargs of one element?
		if sli, ok := t.(*ssa.Slice); ok {
			if al, ok := sli.X.(*ssa.Alloc); ok && al.Comment == "varargs" {
				if at, ok := deref(al.Type()).Underlying().(*types.Array); ok && at.Len() > 1 && at.Len() <= 8 && sli.Low == nil && sli.High == nil {
					nconst = int(at.Len())
				}
				if at, ok := deref(al.Type()).Underlying().(*types.Array); ok && at.Len() == 1 {
					single = true
					inner := app(is, "select", h, app("Int", "s_arr", tv))
					singleVal = app(es, "select", inner, app("Int", "s_off", tv))
				}
			}
		}
		hOld := h
		elemAt = func(k Term) Term {
			return app(es, "select", app(is, "select", hOld, app("Int", "s_arr", tv)), app("Int", "+", app("Int", "s_off", tv), k))
		}
	}
	nl := app("Int", "+", sl, addLen)
	r := fx.defineFresh(v)
	fits := fx.freshConst("fits", "Bool")
	fx.assumeDef(eq(fits, app("Bool", "<=", nl, app("Int", "s_cap", s))))
	fresh := st.next
	st.next = app("Int", "+", st.next, Term{allocStep, "Int"})
	fx.assume(eq(app("Int", "s_len", r), nl))
	fx.assume(app("Bool", "<=", nl, Term{maxLenS, "Int"}))
	fx.assume(implies(fits, and(eq(app("Int", "s_arr", r), app("Int", "s_arr", s)), eq(app("Int", "s_off", r), app("Int", "s_off", s)), eq(app("Int", "s_cap", r), app("Int", "s_cap", s)))))
	fx.assume(implies(not(fits), and(eq(app("Int", "s_arr", r), fresh), eq(app("Int", "s_off", r), Term{"0", "Int"}), app("Bool", "<=", nl, app("Int", "s_cap", r)), app("Bool", "<=", app("Int", "s_cap", r), Term{maxLenS, "Int"}))))
	// appending to a nil/empty slice with zero cap and nothing to add keeps nil: (len 0 add 0) -> fits
	ni := fx.freshConst("app_inner", is)
	oldInnerS := app(is, "select", h, app("Int", "s_arr", s))
	roff := app("Int", "s_off", r)
	soff := app("Int", "s_off", s)
	if single {
		pos := app("Int", "+", roff, sl)
		// in place: store; fresh: copy prefix
		fx.assume(implies(fits, eq(ni, app(is, "store", oldInnerS, pos, singleVal))))
		fx.assume(implies(not(fits), and(
			Term{fmt.Sprintf("(forall ((k Int)) (! (=> (and (<= 0 k) (< k %s)) (= (select %s k) (select %s (eidx %s k)))) :pattern ((select %s k))))", sl.S, ni.S, oldInnerS.S, soff.S, ni.S), "Bool"},
			eq(app(es, "select", ni, sl), singleVal))))
	} else {
		// absolute positions j of the new backing array (pattern: any read of it)
		jj := Term{"j", "Int"}
		// fresh array: the old elements are copied to the front
		fx.assume(implies(not(fits), Term{fmt.Sprintf("(forall ((j Int)) (! (=> (and (<= 0 j) (< j %s)) (= (select %s j) (select %s (eidx %s j)))) :pattern ((select %s j))))", sl.S, ni.S, oldInnerS.S, soff.S, ni.S), "Bool"}))
		// in place: cells outside the appended window are unchanged
		fx.assume(implies(fits, Term{fmt.Sprintf("(forall ((j Int)) (! (=> (or (< j (+ %s %s)) (>= j (+ %s %s))) (= (select %s j) (select %s j))) :pattern ((select %s j))))", roff.S, sl.S, roff.S, nl.S, ni.S, oldInnerS.S, ni.S), "Bool"}))
		// appended elements
		if nconst >= 0 {
			for k := 0; k < nconst; k++ {
				pos := app("Int", "+", app("Int", "+", roff, sl), intLit(int64(k)))
				fx.assume(eq(app(es, "select", ni, pos), elemAt(intLit(int64(k)))))
			}
		} else {
			rel := app("Int", "-", app("Int", "-", jj, roff), sl)
			fx.assume(Term{fmt.Sprintf("(forall ((j Int)) (! (=> (and (<= (+ %s %s) j) (< j (+ %s %s))) (= (select %s j) %s)) :pattern ((select %s j))))", roff.S, sl.S, roff.S, nl.S, ni.S, elemAt(rel).S, ni.S), "Bool"})
		}
	}
	st.setHeap(comp, app(hs, "store", h, app("Int", "s_arr", r), ni))
	fx.assume(fx.typeAssume(r, v.Type(), st))
}

func (fx *FnCtx) copyCall(v *ssa.Call, c *ssa.CallCommon) {
	P := fx.P
	st := fx.cur
	dst := fx.val(c.Args[0])
	et := c.Args[0].Type().Underlying().(*types.Slice).Elem()
	es := P.sorts.sortOf(et)
	is := fmt.Sprintf("(Array Int %s)", es)
	comp := elemComp(et)
	hs := elemSort(P, et)
	h := st.getHeap(P, comp, hs)
	var srcLen Term
	var srcAt func(k string) string
	if isString(c.Args[1].Type()) {
		sv := fx.val(c.Args[1])
		srcLen = app("Int", "slen", sv)
		srcAt = func(k string) string { return fmt.Sprintf("(sat %s %s)", sv.S, k) }
	} else {
		sv := fx.val(c.Args[1])
		srcLen = app("Int", "s_len", sv)
		srcAt = func(k string) string {
			return fmt.Sprintf("(select (select %s (s_arr %s)) (+ (s_off %s) %s))", h.S, sv.S, sv.S, k)
		}
	}
	dl := app("Int", "s_len", dst)
	n := fx.freshConst("copy_n", "Int")
	fx.assumeDef(eq(n, ite(app("Bool", "<=", dl, srcLen), dl, srcLen)))
	if v != nil {
		fx.vals[v] = n
	}
	ni := fx.freshConst("copy_inner", is)
	old := app(is, "select", h, app("Int", "s_arr", dst))
	doff := app("Int", "s_off", dst)
	fx.assume(Term{fmt.Sprintf("(forall ((j Int)) (! (=> (and (<= %s j) (< j (+ %s %s))) (= (select %s j) %s)) :pattern ((select %s j))))", doff.S, doff.S, n.S, ni.S, srcAt("(- j "+doff.S+")"), ni.S), "Bool"})
	fx.assume(Term{fmt.Sprintf("(forall ((j Int)) (! (=> (or (< j %s) (>= j (+ %s %s))) (= (select %s j) (select %s j))) :pattern ((select %s j))))", doff.S, doff.S, n.S, ni.S, old.S, ni.S), "Bool"})
	st.setHeap(comp, app(hs, "store", h, app("Int", "s_arr", dst), ni))
}

// isFreshBase: the address points into an object allocated by this very function invocation
// (such writes are invisible to the caller's pre-state and need no modifies entry).
func isFreshBase(v ssa.Value) bool {
	switch x := v.(type) {
	case *ssa.UnOp:
		if a, ok := x.X.(*ssa.Alloc); ok && x.Op == token.MUL && !a.Heap {
			return localAlwaysFresh(a, 0)
		}
		return false
	case *ssa.Alloc:
		return x.Heap
	case *ssa.MakeSlice, *ssa.MakeMap:
		return true
	case *ssa.Slice:
		return isFreshBase(x.X)
	case *ssa.FieldAddr:
		return isFreshBase(x.X)
	case *ssa.IndexAddr:
		return isFreshBase(x.X)
	}
	return false
}

// localAlwaysFresh: every value ever stored into the local is an object allocated by this invocation
// (make, nil, or append to the local itself).
func localAlwaysFresh(a *ssa.Alloc, depth int) bool {
	if depth > 3 || a.Referrers() == nil {
		return false
	}
	for _, r := range *a.Referrers() {
		s, ok := r.(*ssa.Store)
		if !ok || s.Addr != a {
			continue
		}
		switch v := s.Val.(type) {
		case *ssa.MakeSlice, *ssa.MakeMap:
		case *ssa.Alloc:
			if !v.Heap {
				return false
			}
		case *ssa.Slice:
			if !isFreshBase(v.X) {
				return false
			}
		case *ssa.Const:
			if v.Value != nil {
				return false
			}
		case *ssa.Call:
			b, ok := v.Call.Value.(*ssa.Builtin)
			if !ok || b.Name() != "append" {
				return false
			}
			ld, ok := v.Call.Args[0].(*ssa.UnOp)
			if !ok || ld.X != ssa.Value(a) {
				return false
			}
		default:
			return false
		}
	}
	return true
}
