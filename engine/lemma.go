package main

// Lemmas (proved once, used as axioms) and pure-function axioms.

import (
	"fmt"
	"regexp"
	"strings"
)

type lemmaParts struct {
	decls  []string // (name sort)
	names  []string
	env    *Env
	req    []Term
	ens    []Term
	trig   string
	measure Term
	fuelBound bool
}

var fuelVarRe = regexp.MustCompile(`\bly[0-9]+\b`)

func (P *Prog) lemmaElab(lm *Lemma, prefix string) (*lemmaParts, error) {
	pkg := P.pkgOf(lm.Pkg)
	lp := &lemmaParts{}
	env := &Env{P: P, pkg: pkg, bound: map[string]Val{}}
	env.fuelAll = prefix != "c_" // axiom and induction-hypothesis forms hold for every fuel
	ctr := 0
	env.fuelCtr = &ctr
	env.fuelMap = map[string]string{}
	for _, b := range lm.Params {
		t, err := P.resolveType(pkg, b.Type)
		if err != nil {
			return nil, fmt.Errorf("lemma %s: %v", lm.Name, err)
		}
		s := P.sorts.sortOf(t)
		n := prefix + b.Name
		lp.decls = append(lp.decls, fmt.Sprintf("(%s %s)", n, s))
		lp.names = append(lp.names, n)
		v := Val{T: Term{n, s}, GoT: t}
		if s == "Slice" {
			return nil, fmt.Errorf("lemma %s: slice parameters are not supported; pass arrays", lm.Name)
		}
		env.bound[b.Name] = v
	}
	lp.env = env
	env.fuelNew = true
	for _, tr := range lm.Triggers {
		var ps []string
		for _, te := range tr {
			v, err := env.elab(te)
			if err != nil {
				return nil, fmt.Errorf("lemma %s trigger: %v", lm.Name, err)
			}
			ps = append(ps, v.T.S)
		}
		lp.trig += " :pattern (" + strings.Join(ps, " ") + ")"
	}
	env.fuelNew = false
	for _, c := range lm.Requires {
		t, err := env.elabBool(c.E)
		if err != nil {
			return nil, fmt.Errorf("lemma %s requires (%s): %v", lm.Name, c.Text, err)
		}
		lp.req = append(lp.req, t)
	}
	for _, c := range lm.Ensures {
		t, err := env.elabBool(c.E)
		if err != nil {
			return nil, fmt.Errorf("lemma %s ensures (%s): %v", lm.Name, c.Text, err)
		}
		lp.ens = append(lp.ens, t)
	}
	if lm.Measure != nil {
		m, err := env.elab(lm.Measure)
		if err != nil {
			return nil, fmt.Errorf("lemma %s measure: %v", lm.Name, err)
		}
		if m.T.Sort != "Int" {
			return nil, fmt.Errorf("lemma %s: measure must be an integer", lm.Name)
		}
		lp.measure = m.T
	}
	return lp, nil
}

func (lp *lemmaParts) quantified(extraHyp Term) string {
	body := implies(and(append([]Term{extraHyp}, lp.req...)...), and(lp.ens...))
	if !lp.fuelBound {
		lp.fuelBound = true
		seen := map[string]bool{}
		var fuels []string
		for _, m := range fuelVarRe.FindAllString(body.S+" "+lp.trig, -1) {
			if !seen[m] {
				seen[m] = true
				fuels = append(fuels, "("+m+" Fuel)")
			}
		}
		if len(fuels) > 0 {
			lp.decls = append(fuels, lp.decls...)
			if lp.trig != "" {
				// every bound fuel variable must occur in the trigger, else let the solver choose patterns
				for m := range seen {
					if !containsSym(lp.trig, m) {
						lp.trig = ""
						break
					}
				}
			}
		}
	}
	if len(lp.decls) == 0 {
		return body.S
	}
	if lp.trig != "" {
		return fmt.Sprintf("(forall (%s) (! %s%s))", strings.Join(lp.decls, " "), body.S, lp.trig)
	}
	return fmt.Sprintf("(forall (%s) %s)", strings.Join(lp.decls, " "), body.S)
}

func (P *Prog) lemmaFrom(lm *Lemma, lp *lemmaParts) (Term, error) {
	return tTrue, nil
}

func (P *Prog) lemmaAxiom(lm *Lemma) (string, error) {
	lp, err := P.lemmaElab(lm, "l_")
	if err != nil {
		return "", err
	}
	hyp, err := P.lemmaFrom(lm, lp)
	if err != nil {
		return "", err
	}
	return "(assert " + lp.quantified(hyp) + ") ; lemma " + lm.Name, nil
}

// lemmaVCs: the proof obligations of a lemma.
func (P *Prog) lemmaVCs(lm *Lemma) ([]*VC, error) {
	if lm.Axiom {
		return nil, nil
	}
	lp, err := P.lemmaElab(lm, "c_")
	if err != nil {
		return nil, err
	}
	var decls []string
	for i, d := range lp.decls {
		// "(name sort)" -> declare-const
		inner := strings.TrimSuffix(strings.TrimPrefix(d, "("), ")")
		sp := strings.SplitN(inner, " ", 2)
		_ = i
		decls = append(decls, fmt.Sprintf("(declare-const %s %s)", sp[0], sp[1]))
	}
	hyp, err := P.lemmaFrom(lm, lp)
	if err != nil {
		return nil, err
	}
	var used []string
	// lemmas used must be declared earlier (no circularity)
	for _, u := range lm.Uses {
		ul, ok := P.lemmas[u]
		if !ok {
			return nil, fmt.Errorf("lemma %s uses unknown lemma %s", lm.Name, u)
		}
		if !P.lemmaBefore(ul, lm) {
			return nil, fmt.Errorf("lemma %s uses %s which is not declared earlier", lm.Name, u)
		}
		ax, err := P.lemmaAxiom(ul)
		if err != nil {
			return nil, err
		}
		used = append(used, ax)
	}
	var body strings.Builder
	if hyp.S != "true" {
		body.WriteString("(assert " + hyp.S + ")\n")
	}
	for _, r := range lp.req {
		body.WriteString("(assert " + r.S + ")\n")
	}
	if lm.Induct != "" {
		// induction hypothesis over all parameter tuples with a smaller induction variable
		ih, err := P.lemmaElab(lm, "ih_")
		if err != nil {
			return nil, err
		}
		smaller := and(app("Bool", "<=", Term{"0", "Int"}, ih.measure), app("Bool", "<", ih.measure, lp.measure))
		body.WriteString("(assert " + ih.quantified(smaller) + ") ; induction hypothesis\n")
	}
	for _, h := range lm.Hint {
		v, err := lp.env.elab(h)
		if err != nil {
			return nil, fmt.Errorf("lemma %s hint: %v", lm.Name, err)
		}
		// mention the term so that E-matching sees it
		hf := map[string]string{"Int": "hintI", "Str": "hintS", "Bool": "hintB"}[v.T.Sort]
		if hf == "" {
			// any other sort: mention the term through an equality with a fresh constant
			hn := fmt.Sprintf("hintc_%d", len(decls))
			decls = append(decls, fmt.Sprintf("(declare-const %s %s)", hn, v.T.Sort))
			body.WriteString(fmt.Sprintf("(assert (= %s %s))\n", hn, v.T.S))
			continue
		}
		body.WriteString(fmt.Sprintf("(assert (%s %s))\n", hf, v.T.S))
	}
	var vcs []*VC
	for i, e := range lp.ens {
		goal := "(assert (not " + e.S + "))\n"
		pre := body.String()
		// earlier ensures may be assumed
		for j := 0; j < i; j++ {
			pre += "(assert " + lp.ens[j].S + ")\n"
		}
		text := P.assemble(decls, used, pre+goal, nil)
		kind := "goal"
		if lm.Induct != "" {
			kind = "step"
		}
		vcs = append(vcs, &VC{Name: fmt.Sprintf("lemma:%s.%s.%d", lm.Name, kind, i), Clause: lm.Ensures[i].Text, Props: lm.Props, Text: text, Func: "lemma:" + lm.Name, Lemma: true})
	}
	return vcs, nil
}

func (P *Prog) lemmaBefore(a, b *Lemma) bool {
	for _, l := range P.lemmaList {
		if l == a {
			return true
		}
		if l == b {
			return false
		}
	}
	return false
}

// pureAxioms attaches contract-derived axioms to the SMT modules of pure functions.
func (P *Prog) pureAxioms() error {
	for _, k := range sortedKeys(P.pures) {
		pf := P.pures[k]
		if pf.fc.MathInts != "" && len(pf.fc.Ensures) > 0 && pf.fc.Trusted == "" {
			// the axiom of a pure function holds for ALL arguments; a postcondition proved only for executions
			// without overflow, stated together with the fixed-width range of the result, can be contradictory
			return fmt.Errorf("%s: a pure function cannot be verified under mathints (its axiom would quantify over overflowing inputs); use noovf and explicit bounds", k)
		}
		env := &Env{P: P, pkg: pf.pkg, bound: map[string]Val{}}
		if pf.fc.Kind != "func" && pf.fc.Pkg != "" {
			env.pkg = P.pkgOf(pf.fc.Pkg)
		}
		var decls, names []string
		var guards []Term
		pn := pf.paramN
		if pf.fc.Kind != "func" && len(pf.fc.Params) == len(pf.paramT) {
			pn = nil
			for _, b := range pf.fc.Params {
				pn = append(pn, b.Name)
			}
		}
		for i, t := range pf.paramT {
			s := P.sorts.sortOf(t)
			n := "a_" + sanitize(pn[i])
			decls = append(decls, fmt.Sprintf("(%s %s)", n, s))
			names = append(names, n)
			v := Term{n, s}
			env.bound[pn[i]] = Val{T: v, GoT: t}
			guards = append(guards, P.sorts.typeAssume(v, t))
		}
		var resVals []Val
		var pats []string
		for i, rt := range pf.resT {
			var t Term
			if len(names) == 0 {
				t = Term{pf.sym[i], P.sorts.sortOf(rt)}
			} else {
				t = Term{"(" + pf.sym[i] + " " + strings.Join(names, " ") + ")", P.sorts.sortOf(rt)}
			}
			resVals = append(resVals, Val{T: t, GoT: rt})
			pats = append(pats, t.S)
		}
		env.results = resVals
		if pf.fn != nil && pf.fc.Kind == "func" {
			sig := pf.fn.Signature
			for j := 0; j < sig.Results().Len(); j++ {
				if nm := sig.Results().At(j).Name(); nm != "" && nm != "_" {
					env.bound[nm] = resVals[j]
				}
			}
		} else {
			for j, rb := range pf.fc.Results {
				if j < len(resVals) && rb.Name != "" {
					env.bound[rb.Name] = resVals[j]
				}
			}
		}
		var req, ens []Term
		for _, c := range pf.fc.Requires {
			t, err := env.elabBool(c.E)
			if err != nil {
				return fmt.Errorf("pure %s requires: %v", k, err)
			}
			req = append(req, t)
		}
		for i, rt := range pf.resT {
			ens = append(ens, P.sorts.typeAssume(resVals[i].T, rt))
		}
		for _, c := range pf.fc.Ensures {
			t, err := env.elabBool(c.E)
			if err != nil {
				return fmt.Errorf("pure %s ensures (%s): %v", k, c.Text, err)
			}
			ens = append(ens, t)
		}
		body := implies(and(append(guards, req...)...), and(ens...))
		if body.S == "true" {
			continue
		}
		var ax string
		if len(decls) == 0 {
			ax = "(assert " + body.S + ")"
		} else {
			pat := ""
			for _, p := range pats {
				pat += " :pattern (" + p + ")"
			}
			ax = fmt.Sprintf("(assert (forall (%s) (! %s%s)))", strings.Join(decls, " "), body.S, pat)
		}
		m := P.modules[pf.sym[0]]
		m.axioms = append(m.axioms, ax)
	}
	return nil
}
