package main

import (
	"fmt"
	"os"

	"golang.org/x/tools/go/packages"
	"golang.org/x/tools/go/ssa"
	"golang.org/x/tools/go/ssa/ssautil"
)

func main() {
	cfg := &packages.Config{Mode: packages.LoadAllSyntax, Dir: "/repo"}
	pkgs, err := packages.Load(cfg, os.Args[1:]...)
	if err != nil {
		panic(err)
	}
	prog, spkgs := ssautil.AllPackages(pkgs, ssa.NaiveForm|ssa.GlobalDebug)
	prog.Build()
	for _, p := range spkgs {
		if f := p.Func("parseInt"); f != nil {
			f.WriteTo(os.Stdout)
		}
	}
	fmt.Println("ok")
}
