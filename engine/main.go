package main

import (
	"encoding/json"
	"flag"
	"fmt"
	"os"
	"path/filepath"
	"sort"
	"strings"
	"time"
)

type KnownFinding struct {
	Property   string `json:"property"`
	Obligation string `json:"obligation"`
	What       string `json:"what"`
	Status     string `json:"status"`
	Commit     string `json:"commit,omitempty"`
	Tag        string `json:"tag,omitempty"`
}

func contains(xs []string, s string) bool {
	for _, x := range xs {
		if x == s {
			return true
		}
	}
	return false
}

func main() {
	if len(os.Args) < 2 {
		fmt.Fprintln(os.Stderr, "usage: govc check --prop Cxx [--tier quick|thorough]")
		os.Exit(2)
	}
	switch os.Args[1] {
	case "check":
		os.Exit(cmdCheck(os.Args[2:]))
	case "validate-externs":
		os.Exit(cmdValidateExterns())
	case "ssa":
		P, err := loadProg("/repo", "")
		if err != nil {
			fmt.Println(err)
			os.Exit(2)
		}
		for k, fn := range P.fnByKey {
			if strings.HasSuffix(k, "|"+os.Args[3]) && strings.HasSuffix(strings.Split(k, "|")[0], os.Args[2]) {
				fn.WriteTo(os.Stdout)
			}
		}
	case "parse":
		for _, f := range os.Args[2:] {
			if _, err := parseContractFile(f); err != nil {
				fmt.Println(err)
				os.Exit(2)
			}
		}
		fmt.Println("ok")
	default:
		fmt.Fprintln(os.Stderr, "unknown command")
		os.Exit(2)
	}
}

func cmdCheck(args []string) int {
	fs := flag.NewFlagSet("check", flag.ExitOnError)
	prop := fs.String("prop", "", "property id")
	tier := fs.String("tier", "quick", "quick|thorough")
	repo := fs.String("repo", "/repo", "repository root")
	verif := fs.String("verif", "/verif", "verif root")
	only := fs.String("func", "", "only this function key (development)")
	onlyOb := fs.String("ob", "", "only obligations containing this substring (development)")
	verbose := fs.Bool("v", false, "verbose")
	keep := fs.Bool("keep", false, "keep SMT files")
	timeout := fs.Int("timeout", 0, "solver timeout seconds")
	noEvidence := fs.Bool("no-evidence", false, "do not write evidence")
	fs.BoolVar(&noRetry, "no-retry", false, "do not retry undischarged obligations with other seeds (development)")
	fs.Parse(args)
	if t := os.Getenv("VERIF_TIER"); t != "" && *tier == "" {
		*tier = t
	}
	start := time.Now()
	to := 20
	if *tier == "thorough" {
		to = 120
	}
	if *timeout > 0 {
		to = *timeout
	}
	P, err := loadProg(*repo, filepath.Join(*verif, "prelude"))
	if err != nil {
		fmt.Fprintf(os.Stderr, "govc: cannot load program: %v\n", err)
		// a tree that does not build cannot be verified: engine error
		return 2
	}
	if err := P.pureAxioms(); err != nil {
		fmt.Fprintf(os.Stderr, "govc: %v\n", err)
		return 2
	}
	work, _ := os.MkdirTemp("", "govc-"+*prop+"-")
	if !*keep {
		defer os.RemoveAll(work)
	} else {
		fmt.Println("work dir:", work)
	}

	var vcs []*VC
	var bindingFailures []string
	var funcs []string
	var outside []string
	notes := map[string]bool{}
	usedFC := map[*FuncContract]bool{}
	trusted := []string{}
	for _, k := range sortedKeys(P.contracts) {
		fc := P.contracts[k]
		if *prop != "" && !contains(fc.Props, *prop) {
			continue
		}
		if *only != "" && fc.Key != *only {
			continue
		}
		fn := P.fnByKey[k]
		short := fc.Key
		if fn == nil {
			bindingFailures = append(bindingFailures, fmt.Sprintf("binding failure: function %s under contract no longer exists (%s)", fc.Key, k))
			continue
		}
		if fc.Trusted != "" {
			trusted = append(trusted, fmt.Sprintf("%s.%s: contract assumed, body not verified (%s)", fn.Pkg.Pkg.Name(), short, fc.Trusted))
			continue
		}
		fx := newFnCtx(P, fn, fc)
		fx.generate()
		if len(fx.errs) > 0 {
			isOutside := false
			seen := map[string]bool{}
			var msgs []string
			for _, e := range fx.errs {
				if strings.HasPrefix(e, "outside subset") {
					isOutside = true
				}
				if !seen[e] {
					seen[e] = true
					msgs = append(msgs, e)
				}
			}
			bindingFailures = append(bindingFailures, fx.key+": "+strings.Join(msgs, "; "))
			if isOutside {
				outside = append(outside, fx.key)
			}
			continue
		}
		fvcs, err := fx.buildVCs()
		if err != nil {
			bindingFailures = append(bindingFailures, fx.key+": "+err.Error())
			continue
		}
		funcs = append(funcs, fmt.Sprintf("%s (%s mode)", fx.key, fx.mode))
		for n := range fx.notes {
			notes[fx.key+": "+n] = true
			if *verbose && strings.HasPrefix(n, "uncontracted callee") {
				fmt.Printf("note: %s: %s\n", fx.key, n)
			}
		}
		for ufc := range fx.usedFC {
			usedFC[ufc] = true
		}
		for _, vc := range fvcs {
			if *prop != "" && len(vc.Props) > 0 && !contains(vc.Props, *prop) {
				continue
			}
			vcs = append(vcs, vc)
		}
	}
	var lemmaNames []string
	// lemmas used (transitively) by the selected functions and lemmas are proved in the same run
	usedLemma := map[string]bool{}
	var markUsed func(n string)
	markUsed = func(n string) {
		if usedLemma[n] {
			return
		}
		usedLemma[n] = true
		if lm, ok := P.lemmas[n]; ok {
			for _, u := range lm.Uses {
				markUsed(u)
			}
		}
	}
	for _, k := range sortedKeys(P.contracts) {
		fc := P.contracts[k]
		if *prop == "" || contains(fc.Props, *prop) {
			for _, u := range fc.Uses {
				markUsed(u)
			}
		}
	}
	for _, lm := range P.lemmaList {
		if *prop == "" || contains(lm.Props, *prop) {
			markUsed(lm.Name)
		}
	}
	for _, lm := range P.lemmaList {
		if !usedLemma[lm.Name] {
			continue
		}
		if *only != "" && "lemma:"+lm.Name != *only {
			continue
		}
		if lm.Axiom {
			for _, an := range lm.Anchors {
				b, err := os.ReadFile(filepath.Join(*repo, an[0]))
				if err != nil || !strings.Contains(string(b), an[1]) {
					bindingFailures = append(bindingFailures, fmt.Sprintf("binding failure: axiom %s transcribes text of %s that is no longer there (%q): the assumption does not describe the current source", lm.Name, an[0], an[1]))
				}
			}
			continue
		}
		lv, err := P.lemmaVCs(lm)
		if err != nil {
			bindingFailures = append(bindingFailures, err.Error())
			continue
		}
		lemmaNames = append(lemmaNames, lm.Name)
		vcs = append(vcs, lv...)
	}
	// termination of every recursive spec function that can appear in this run's VCs
	specSeen := map[string]bool{}
	for _, k := range sortedKeys(P.specs) {
		sf := P.specs[k]
		if specSeen[sf.Name] || *only != "" {
			continue
		}
		specSeen[sf.Name] = true
		sym := "sp_" + sanitize(sf.Name)
		used := false
		for _, vc := range vcs {
			if strings.Contains(vc.Text, sym) {
				used = true
				break
			}
		}
		if !used {
			continue
		}
		for _, u := range sf.Uses {
			markUsed(u)
		}
		tv, err := P.specTerminationVCs(sf)
		if err != nil {
			bindingFailures = append(bindingFailures, err.Error())
			continue
		}
		vcs = append(vcs, tv...)
	}
	if *onlyOb != "" {
		var f []*VC
		for _, vc := range vcs {
			if strings.Contains(vc.Name, *onlyOb) {
				f = append(f, vc)
			}
		}
		vcs = f
	}
	engineErr := false
	// obligation names are identities (replay files, known findings, SMT file names): they must be unique
	seenName := map[string]bool{}
	for _, vc := range vcs {
		if seenName[vc.Name] {
			fmt.Printf("ENGINE-ERROR: duplicate obligation name %s\n", vc.Name)
			engineErr = true
		}
		seenName[vc.Name] = true
	}
	tGen := time.Since(start).Seconds()
	dischargeAll(vcs, work, to, 14)
	tDis := time.Since(start).Seconds() - tGen

	// known findings
	var known []KnownFinding
	if b, err := os.ReadFile(filepath.Join(*verif, "known_findings.json")); err == nil {
		_ = json.Unmarshal(b, &known)
	}
	isKnown := func(vc *VC) *KnownFinding {
		for i := range known {
			k := &known[i]
			if k.Status == "open" && k.Property == *prop && (k.Obligation == vc.Name || (k.Tag != "" && k.Tag == vc.Known)) {
				return k
			}
		}
		return nil
	}
	type searchRes struct {
		ok   bool
		info interface{}
	}
	searched := map[string]searchRes{}
	violations := 0
	knownCount := 0
	discharged := 0
	perBackend := map[string]int{}
	var solverMs int64
	type sample struct {
		Obligation string `json:"obligation"`
		Clause     string `json:"clause"`
		Backend    string `json:"backend"`
		Ms         int64  `json:"ms"`
		Result     string `json:"result"`
	}
	var samples []sample
	var slow []sample
	var knownHit []string
	replayDir := filepath.Join(*verif, "replays", *prop)
	sort.SliceStable(vcs, func(i, j int) bool { return vcs[i].Name < vcs[j].Name })
	for _, vc := range vcs {
		solverMs += vc.Ms
		if *verbose {
			fmt.Printf("%-8s %-7s %6dms  %s  -- %s\n", vc.Result, vc.Backend, vc.Ms, vc.Name, vc.Clause)
		}
		switch vc.Result {
		case "unsat":
			discharged++
			perBackend[vc.Backend]++
			if len(samples) < 12 && !vc.Cover {
				samples = append(samples, sample{vc.Name, vc.Clause, vc.Backend, vc.Ms, vc.Result})
			}
			if vc.Ms > 3000 {
				slow = append(slow, sample{vc.Name, vc.Clause, vc.Backend, vc.Ms, vc.Result})
			}
		case "vacuous":
			fmt.Printf("ENGINE-ERROR: assumptions of %s are contradictory (vacuity guard)\n", vc.Func)
			engineErr = true
		case "disagree":
			fmt.Printf("ENGINE-ERROR: solvers disagree on %s\n", vc.Name)
			engineErr = true
		default:
			if kf := isKnown(vc); kf != nil {
				fmt.Printf("KNOWN-FINDING: property=%s %s [%s]\n", *prop, kf.What, vc.Name)
				knownHit = append(knownHit, vc.Name)
				knownCount++
				continue
			}
			violations++
			os.MkdirAll(replayDir, 0o755)
			rp := filepath.Join(replayDir, sanitize(vc.Name)+".json")
			suffix := " no-failing-input-found"
			rep := map[string]interface{}{"property": *prop, "obligation": vc.Name, "clause": vc.Clause, "function": vc.Func,
				"solver_result": vc.Result, "backend": vc.Backend, "all_results": vc.AllRes, "solver_output": truncate(vc.Output, 20000)}
			if ok, info := tryReplay(P, vc, *repo, work); ok {
				suffix = ""
				rep["replay"] = info
			} else {
				rep["replay"] = info
				// no usable model: look for a failing input by bounded enumeration (once per function)
				if r, done := searched[vc.Func]; done {
					rep["search"] = r.info
					if r.ok {
						suffix = ""
					}
				} else {
					ok2, info2 := searchFailingInput(P, vc, *repo, work)
					searched[vc.Func] = searchRes{ok2, info2}
					rep["search"] = info2
					if ok2 {
						suffix = ""
					}
				}
			}
			b, _ := json.MarshalIndent(rep, "", " ")
			os.WriteFile(rp, b, 0o644)
			fmt.Printf("VIOLATION property=%s replay=%s%s\n", *prop, rp, suffix)
			fmt.Printf("  failed obligation: %s [%s] -- %s\n", vc.Name, vc.Result, vc.Clause)
		}
	}
	for _, bf := range bindingFailures {
		violations++
		os.MkdirAll(replayDir, 0o755)
		rp := filepath.Join(replayDir, fmt.Sprintf("binding_%d.json", violations))
		b, _ := json.MarshalIndent(map[string]interface{}{"property": *prop, "obligation": "binding", "reason": bf}, "", " ")
		os.WriteFile(rp, b, 0o644)
		fmt.Printf("VIOLATION property=%s replay=%s no-failing-input-found\n", *prop, rp)
		fmt.Printf("  %s\n", bf)
	}
	total := len(vcs) - knownCount // obligations that fail as listed known findings are reported separately, not counted
	if total == 0 && len(bindingFailures) == 0 {
		fmt.Printf("ENGINE-ERROR: no obligations generated for %s\n", *prop)
		engineErr = true
	}
	// evidence
	if !*noEvidence && *prop != "" && *only == "" && *onlyOb == "" {
		var assumptions []string
		assumptions = append(assumptions, P.assumptionList(*prop, usedFC, usedLemma)...)
		assumptions = append(assumptions, trusted...)
		for _, n := range sortedKeysB(notes) {
			assumptions = append(assumptions, n)
		}
		ev := map[string]interface{}{
			"property_id": *prop, "tier": *tier, "seed": 0, "level": "proof", "wall_s": time.Since(start).Seconds(), "violations": violations,
			"coverage": map[string]interface{}{
				"obligations": total, "discharged": discharged,
				"checker_cmd":  fmt.Sprintf("bin/govc check --prop %s --tier %s", *prop, *tier),
				"trusted_base": []string{"go/packages+go/types+go/ssa (x/tools v0.29.0, naive form)", "govc VC generator (/verif/engine)", "z3 4.8.12", "z3 5.1.0", "cvc5 1.0", "prelude theories and library contracts (/verif/prelude)"},
				"functions_under_contract": funcs, "functions_outside_subset": outside, "lemmas": lemmaNames,
				"per_backend": perBackend, "solver_time_s": float64(solverMs) / 1000, "slowest": slow,
				"samples": samples, "known_findings_hit": knownHit,
				"integer_semantics": "int mode: Go integers as mathematical Int with a safe.ovf obligation at every + - * on fixed-width types (machine arithmetic checked, not assumed)",
			},
			"assumptions": assumptions,
		}
		os.MkdirAll(filepath.Join(*verif, "evidence"), 0o755)
		b, _ := json.MarshalIndent(ev, "", " ")
		os.WriteFile(filepath.Join(*verif, "evidence", *prop+".json"), b, 0o644)
	}
	fmt.Printf("govc: property=%s obligations=%d discharged=%d violations=%d functions=%d lemmas=%d wall=%.1fs (load+generate %.1fs, discharge %.1fs)\n", *prop, total, discharged, violations, len(funcs), len(lemmaNames), time.Since(start).Seconds(), tGen, tDis)
	if engineErr {
		return 2
	}
	if violations > 0 {
		return 1
	}
	return 0
}

func sortedKeysB(m map[string]bool) []string {
	var ks []string
	for k := range m {
		ks = append(ks, k)
	}
	sort.Strings(ks)
	return ks
}

func truncate(s string, n int) string {
	if len(s) > n {
		return s[:n] + "...[truncated]"
	}
	return s
}

// assumptionList: mechanical scan of what this run relied on without proving it here.
func (P *Prog) assumptionList(prop string, used map[*FuncContract]bool, usedLemma map[string]bool) []string {
	var out []string
	for _, lm := range P.lemmaList {
		if lm.Axiom && usedLemma[lm.Name] {
			out = append(out, fmt.Sprintf("axiom %s (%s)", lm.Name, lm.Reason))
		}
	}
	var ext, ifc, tr, other []string
	for fc := range used {
		for _, c := range fc.Ensures {
			if c.Assumed != "" && fc.Trusted == "" && fc.Kind == "func" {
				other = append(other, fc.Key+": ASSUMED postcondition ("+c.Assumed+"): "+c.Text)
			}
		}
		switch {
		case fc.Kind == "extern":
			ext = append(ext, fc.Key)
		case fc.Kind == "iface":
			ifc = append(ifc, fc.Key)
		case fc.Kind == "funcparam":
			ifc = append(ifc, "function parameter "+fc.Key)
		case fc.Trusted != "":
			tr = append(tr, fc.Key+" ("+fc.Trusted+")")
		case !contains(fc.Props, prop):
			other = append(other, fc.Key+" (props "+strings.Join(fc.Props, ",")+")")
		}
	}
	sort.Strings(ext)
	sort.Strings(ifc)
	sort.Strings(tr)
	sort.Strings(other)
	for _, k := range ext {
		out = append(out, "library contract assumed: "+k)
	}
	for _, k := range ifc {
		out = append(out, "interface/callback contract assumed of caller-supplied implementations: "+k)
	}
	for _, k := range tr {
		out = append(out, "trusted summary, body not verified: "+k)
	}
	for _, k := range other {
		if strings.Contains(k, ": ASSUMED postcondition (") {
			out = append(out, "assumed, not verified: "+k)
			continue
		}
		out = append(out, "contract used here, verified under another property: "+k)
	}
	out = append(out, "string/slice lengths and allocation sizes are at most 2^62 (allocator never exhausts memory)",
		"Str theory and UTF-8 iteration axioms, heap closedness (stored references denote allocated memory), go/ssa lowering (prelude in engine/smt.go, engine/discharge.go)")
	return out
}

// cmdValidateExterns runs every assumed pure library contract with scalar/string parameters against
// the real library on an enumeration of small inputs (keeps the prelude honest; thorough tier).
func cmdValidateExterns() int {
	P, err := loadProg("/repo", "/verif/prelude")
	if err != nil {
		fmt.Println(err)
		return 2
	}
	work, _ := os.MkdirTemp("", "govc-externs-")
	defer os.RemoveAll(work)
	bad := 0
	for _, k := range sortedKeys(P.externs) {
		fc := P.externs[k]
		fn := P.findExternFn(k)
		if fn == nil {
			fmt.Printf("%-36s no such function\n", k)
			bad++
			continue
		}
		ps, ok := replayParams(fn)
		if !ok || len(fc.Ensures) == 0 {
			fmt.Printf("%-36s not validated (signature outside fragment or no ensures)\n", k)
			continue
		}
		ok2, failed, _, out, reason := runContractOnInputs(P, fn, fc, ps, nil, 8, "/repo", work)
		switch {
		case !ok2:
			fmt.Printf("%-36s not validated: %s %s\n", k, reason, truncate(out, 300))
		case len(failed) > 0:
			fmt.Printf("%-36s CONTRACT FALSE on real library: %v\n%s\n", k, failed, truncate(out, 600))
			bad++
		default:
			n := ""
			for _, ln := range strings.Split(out, "\n") {
				if strings.HasPrefix(ln, "REPLAY-SEARCHED") {
					n = ln
				}
			}
			fmt.Printf("%-36s ok (%s)\n", k, n)
		}
	}
	if bad > 0 {
		return 1
	}
	return 0
}
