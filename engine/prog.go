package main

// Program loading, contract registry, global SMT modules.

import (
	"fmt"
	"go/types"
	"os"
	"path/filepath"
	"sort"
	"strings"

	"golang.org/x/tools/go/packages"
	"golang.org/x/tools/go/ssa"
	"golang.org/x/tools/go/ssa/ssautil"
)

type module struct {
	name   string
	decl   string
	axioms []string
	order  int
}

type specInfo struct {
	sf     *SpecFunc
	sym    string
	paramT []types.Type
	resT   types.Type
	pkg    *types.Package
	done   bool
	fuel   bool // self-recursive: takes a fuel argument that bounds unfolding by E-matching
}

type pureFunc struct {
	fc     *FuncContract
	fn     *ssa.Function
	sym    []string
	paramT []types.Type
	paramN []string
	resT   []types.Type
	pkg    *types.Package
}

type Prog struct {
	repo      string
	pkgs      []*packages.Package
	curTop    *ssa.Function // outermost function enclosing the contract being elaborated (for function-local type names)
	ssaProg   *ssa.Program
	ssaPkgs   map[string]*ssa.Package
	typPkgs   map[string]*types.Package
	sorts     *Sorts
	contracts map[string]*FuncContract // "pkgpath|key"
	ifaces    map[string]*FuncContract // "Type.Method"
	externs   map[string]*FuncContract // "strings.HasPrefix"
	specs     map[string]*SpecFunc     // "pkgname|name" and "name" (if unique)
	specInfos map[*SpecFunc]*specInfo
	lemmas    map[string]*Lemma
	lemmaList []*Lemma
	pures     map[string]*pureFunc // "pkgpath|key"
	globals   []*GlobalFact
	files     []*ContractFile
	modules   map[string]*module
	modOrder  int
	strLits   map[string]string
	need      map[string]bool
	rawSMT    []string
	fnByKey   map[string]*ssa.Function
	assumptionsLog map[string]bool
	embed     map[string]bool
	ghostComps map[string]*GhostComp
}

var repoPkgs = []string{"./semver", "./module", "./modfile", "./zip", "./sumdb", "./sumdb/tlog", "./sumdb/note", "./sumdb/dirhash", "./sumdb/storage", "./internal/lazyregexp"}

func loadProg(repo string, preludeDir string) (*Prog, error) {
	cfg := &packages.Config{Mode: packages.LoadAllSyntax, Dir: repo, Env: append(os.Environ(), "GOFLAGS=-mod=mod", "GOPROXY=off", "GOSUMDB=off", "GOTOOLCHAIN=local")}
	pkgs, err := packages.Load(cfg, repoPkgs...)
	if err != nil {
		return nil, err
	}
	for _, p := range pkgs {
		if len(p.Errors) > 0 {
			return nil, fmt.Errorf("package %s does not build: %v", p.PkgPath, p.Errors[0])
		}
	}
	prog, spkgs := ssautil.AllPackages(pkgs, ssa.NaiveForm|ssa.GlobalDebug)
	prog.Build()
	P := &Prog{repo: repo, pkgs: pkgs, ssaProg: prog, ssaPkgs: map[string]*ssa.Package{}, typPkgs: map[string]*types.Package{},
		sorts: newSorts(), contracts: map[string]*FuncContract{}, ifaces: map[string]*FuncContract{}, externs: map[string]*FuncContract{},
		specs: map[string]*SpecFunc{}, specInfos: map[*SpecFunc]*specInfo{}, lemmas: map[string]*Lemma{}, pures: map[string]*pureFunc{},
		modules: map[string]*module{}, strLits: map[string]string{}, need: map[string]bool{}, fnByKey: map[string]*ssa.Function{},
		assumptionsLog: map[string]bool{}}
	for i, p := range pkgs {
		P.ssaPkgs[p.PkgPath] = spkgs[i]
	}
	for _, sp := range prog.AllPackages() {
		P.typPkgs[sp.Pkg.Path()] = sp.Pkg
	}
	// index functions
	for fn := range ssautil.AllFunctions(prog) {
		if fn.Pkg == nil {
			continue
		}
		P.fnByKey[fn.Pkg.Pkg.Path()+"|"+fnKey(fn)] = fn
	}
	// prelude contract files
	if preludeDir != "" {
		ms, _ := filepath.Glob(filepath.Join(preludeDir, "*.spec"))
		sort.Strings(ms)
		for _, m := range ms {
			cf, err := parseContractFile(m)
			if err != nil {
				return nil, err
			}
			cf.Pkg = ""
			if err := P.register(cf, nil); err != nil {
				return nil, err
			}
		}
	}
	// per-package contract files
	for _, p := range pkgs {
		dir := ""
		if len(p.GoFiles) > 0 {
			dir = filepath.Dir(p.GoFiles[0])
		}
		ms, _ := filepath.Glob(filepath.Join(dir, "zz_contracts*_verif.go"))
		sort.Strings(ms)
		for _, m := range ms {
			cf, err := parseContractFile(m)
			if err != nil {
				return nil, err
			}
			cf.Pkg = p.PkgPath
			if err := P.register(cf, p.Types); err != nil {
				return nil, err
			}
		}
	}
	if err := P.finishRegistry(); err != nil {
		return nil, err
	}
	return P, nil
}

func (P *Prog) allTypesPkgs() []*types.Package {
	var r []*types.Package
	for _, k := range sortedKeys(P.typPkgs) {
		r = append(r, P.typPkgs[k])
	}
	return r
}

// fnKey: contract key of an ssa function relative to its package.
func fnKey(fn *ssa.Function) string {
	s := fn.RelString(fn.Pkg.Pkg)
	// "(ByVersion).Less" -> "ByVersion.Less"; keep "(*File).Add"
	if strings.HasPrefix(s, "(") && !strings.HasPrefix(s, "(*") {
		if i := strings.Index(s, ")"); i > 0 {
			s = s[1:i] + s[i+1:]
		}
	}
	return s
}

func (P *Prog) register(cf *ContractFile, tp *types.Package) error {
	P.files = append(P.files, cf)
	pkgName := ""
	if tp != nil {
		pkgName = tp.Name()
	}
	for _, fc := range cf.Funcs {
		fc.Pkg = cf.Pkg
		switch fc.Kind {
		case "func":
			k := cf.Pkg + "|" + fc.Key
			if prev, dup := P.contracts[k]; dup {
				// a second block adds clauses to the first
				prev.Requires = append(prev.Requires, fc.Requires...)
				prev.Ensures = append(prev.Ensures, fc.Ensures...)
				prev.Uses = append(prev.Uses, fc.Uses...)
				prev.Calls = append(prev.Calls, fc.Calls...)
				prev.Modifies = append(prev.Modifies, fc.Modifies...)
				for _, pr := range fc.Props {
					if !contains(prev.Props, pr) {
						prev.Props = append(prev.Props, pr)
					}
				}
				continue
			}
			P.contracts[k] = fc
		case "iface":
			P.ifaces[fc.Key] = fc
		case "extern":
			P.externs[fc.Key] = fc
		}
	}
	for _, sf := range cf.Specs {
		sf.Pkg = cf.Pkg
		k := pkgName + "|" + sf.Name
		if _, dup := P.specs[k]; dup {
			return fmt.Errorf("%s: duplicate spec %s", cf.Path, sf.Name)
		}
		P.specs[k] = sf
		if _, dup := P.specs[sf.Name]; !dup {
			P.specs[sf.Name] = sf
		}
	}
	for _, lm := range cf.Lemmas {
		lm.Pkg = cf.Pkg
		if _, dup := P.lemmas[lm.Name]; dup {
			return fmt.Errorf("%s: duplicate lemma %s", cf.Path, lm.Name)
		}
		P.lemmas[lm.Name] = lm
		P.lemmaList = append(P.lemmaList, lm)
	}
	for _, g := range cf.Globals {
		g.Pkg = cf.Pkg
		P.globals = append(P.globals, g)
	}
	P.rawSMT = append(P.rawSMT, cf.RawSMT...)
	for _, g := range cf.Ghosts {
		g.Pkg = cf.Pkg
		if P.ghostComps == nil {
			P.ghostComps = map[string]*GhostComp{}
		}
		P.ghostComps[g.Name] = g
	}
	return nil
}

func (P *Prog) pkgOf(path string) *types.Package {
	if path == "" {
		return nil
	}
	return P.typPkgs[path]
}

func (P *Prog) findSpec(pkg *types.Package, name string) *SpecFunc {
	if pkg != nil {
		if sf, ok := P.specs[pkg.Name()+"|"+name]; ok {
			return sf
		}
	}
	if sf, ok := P.specs["|"+name]; ok {
		return sf
	}
	if sf, ok := P.specs[name]; ok {
		return sf
	}
	return nil
}

func (P *Prog) findPureFunc(pkg *types.Package, name string) *pureFunc {
	if pkg != nil {
		if pf, ok := P.pures[pkg.Path()+"|"+name]; ok {
			return pf
		}
	}
	if i := strings.Index(name, "."); i > 0 {
		q, n := name[:i], name[i+1:]
		for path, pf := range P.pures {
			pp := strings.Split(path, "|")
			if pp[1] == n && (pp[0] == q || strings.HasSuffix(pp[0], "/"+q)) {
				return pf
			}
		}
	}
	return nil
}

func (P *Prog) finishRegistry() error {
	// pure functions: declare symbols
	for _, k := range sortedKeys(P.contracts) {
		fc := P.contracts[k]
		if !fc.Pure {
			continue
		}
		fn := P.fnByKey[k]
		if fn == nil {
			continue // reported as binding failure when checked
		}
		P.declarePure(k, fc, fn.Signature, fn, fn.Pkg.Pkg)
	}
	for _, k := range sortedKeys(P.externs) {
		fc := P.externs[k]
		if !fc.Pure {
			continue
		}
		// extern key "strings.HasPrefix": find the function for its signature
		fn := P.findExternFn(k)
		if fn == nil {
			continue
		}
		i := strings.LastIndex(k, ".")
		q := k[:i]
		P.declarePure(q+"|"+k[i+1:], fc, fn.Signature, fn, fn.Pkg.Pkg)
	}
	return nil
}

func (P *Prog) findExternFn(key string) *ssa.Function {
	// key: "strings.HasPrefix" or "(*strings.Builder).WriteString" or "utf8.ValidString"
	for path, sp := range P.ssaProgPkgs() {
		base := path
		if i := strings.LastIndex(path, "/"); i >= 0 {
			base = path[i+1:]
		}
		if strings.HasPrefix(key, base+".") {
			name := key[len(base)+1:]
			if f := sp.Func(name); f != nil {
				return f
			}
		}
		if strings.HasPrefix(key, "(*"+base+".") || strings.HasPrefix(key, "("+base+".") {
			// method
			i := strings.Index(key, ")")
			tn := strings.TrimPrefix(strings.TrimPrefix(key[1:i], "*"), base+".")
			mn := key[i+2:]
			if o := sp.Pkg.Scope().Lookup(tn); o != nil {
				var t types.Type = o.Type()
				if strings.HasPrefix(key, "(*") {
					t = types.NewPointer(t)
				}
				if sel := P.ssaProg.MethodSets.MethodSet(t).Lookup(sp.Pkg, mn); sel != nil {
					return P.ssaProg.MethodValue(sel)
				}
			}
		}
	}
	return nil
}

func (P *Prog) ssaProgPkgs() map[string]*ssa.Package {
	m := map[string]*ssa.Package{}
	for _, sp := range P.ssaProg.AllPackages() {
		m[sp.Pkg.Path()] = sp
	}
	return m
}

func (P *Prog) declarePure(k string, fc *FuncContract, sig *types.Signature, fn *ssa.Function, pkg *types.Package) {
	pf := &pureFunc{fc: fc, fn: fn, pkg: pkg}
	if sig.Recv() != nil {
		pf.paramT = append(pf.paramT, sig.Recv().Type())
		pf.paramN = append(pf.paramN, sig.Recv().Name())
	}
	for i := 0; i < sig.Params().Len(); i++ {
		pf.paramT = append(pf.paramT, sig.Params().At(i).Type())
		n := sig.Params().At(i).Name()
		if n == "" || n == "_" {
			n = fmt.Sprintf("arg%d", i)
		}
		pf.paramN = append(pf.paramN, n)
	}
	for i := 0; i < sig.Results().Len(); i++ {
		pf.resT = append(pf.resT, sig.Results().At(i).Type())
	}
	base := "F_" + sanitize(strings.ReplaceAll(k, "|", "_"))
	var ps []string
	for _, t := range pf.paramT {
		ps = append(ps, P.sorts.sortOf(t))
	}
	for i, rt := range pf.resT {
		sym := base
		if len(pf.resT) > 1 {
			sym = fmt.Sprintf("%s_r%d", base, i)
		}
		pf.sym = append(pf.sym, sym)
		P.addModule(sym, fmt.Sprintf("(declare-fun %s (%s) %s)", sym, strings.Join(ps, " "), P.sorts.sortOf(rt)))
	}
	P.pures[k] = pf
}

func (P *Prog) addModule(name, decl string, axioms ...string) *module {
	if m, ok := P.modules[name]; ok {
		return m
	}
	P.modOrder++
	m := &module{name: name, decl: decl, axioms: axioms, order: P.modOrder}
	P.modules[name] = m
	return m
}

func (P *Prog) strLit(s string) Term {
	if s == "" {
		return Term{"sempty", "Str"}
	}
	if n, ok := P.strLits[s]; ok {
		return Term{n, "Str"}
	}
	name := fmt.Sprintf("slit_%d", len(P.strLits))
	P.strLits[s] = name
	var ax []string
	ax = append(ax, fmt.Sprintf("(assert (= (slen %s) %d))", name, len(s)))
	if len(s) <= 64 {
		for i := 0; i < len(s); i++ {
			ax = append(ax, fmt.Sprintf("(assert (= (sat %s %d) %d))", name, i, s[i]))
		}
	}
	P.addModule(name, fmt.Sprintf("(declare-const %s Str) ; %q", name, s), ax...)
	return Term{name, "Str"}
}

func (P *Prog) heapInit(comp, sort string) Term {
	name := "H0_" + sanitize(comp)
	P.addModule(name, fmt.Sprintf("(declare-const %s %s)", name, sort))
	return Term{name, sort}
}

// specInfo resolves a spec function's signature and registers its SMT module.
func (P *Prog) specInfo(sf *SpecFunc) (*specInfo, error) {
	if si, ok := P.specInfos[sf]; ok {
		return si, nil
	}
	pkg := P.pkgOf(sf.Pkg)
	si := &specInfo{sf: sf, sym: "sp_" + sanitize(sf.Name), pkg: pkg}
	P.specInfos[sf] = si
	if sf.Body != nil && !sf.Macro {
		var rc []recCall
		collectRecCalls(sf.Name, sf.Body, nil, nil, &rc)
		si.fuel = len(rc) > 0
	}
	for _, b := range sf.Params {
		t, err := P.resolveType(pkg, b.Type)
		if err != nil {
			return nil, fmt.Errorf("spec %s: %v", sf.Name, err)
		}
		si.paramT = append(si.paramT, t)
	}
	rt, err := P.resolveType(pkg, sf.Result)
	if err != nil {
		return nil, fmt.Errorf("spec %s: %v", sf.Name, err)
	}
	si.resT = rt
	if sf.Macro {
		return si, nil
	}
	// build declaration
	var ps, qs, as []string
	env := &Env{P: P, pkg: pkg, bound: map[string]Val{}}
	for i, b := range sf.Params {
		s := P.sorts.sortOf(si.paramT[i])
		n := "p_" + b.Name
		ps = append(ps, s)
		qs = append(qs, fmt.Sprintf("(%s %s)", n, s))
		as = append(as, n)
		v := Val{T: Term{n, s}, GoT: si.paramT[i]}
		if s == "Slice" {
			es := P.sorts.sortOf(si.paramT[i].Underlying().(*types.Slice).Elem())
			an := n + "_A"
			asort := fmt.Sprintf("(Array Int %s)", es)
			ps = append(ps, asort)
			qs = append(qs, fmt.Sprintf("(%s %s)", an, asort))
			as = append(as, an)
			at := Term{an, asort}
			v.Aux = &at
		}
		env.bound[b.Name] = v
	}
	rs := P.sorts.sortOf(rt)
	if sf.Body == nil {
		if len(ps) == 0 {
			P.addModule(si.sym, fmt.Sprintf("(declare-const %s %s)", si.sym, rs))
		} else {
			P.addModule(si.sym, fmt.Sprintf("(declare-fun %s (%s) %s)", si.sym, strings.Join(ps, " "), rs))
		}
		return si, nil
	}
	// register the module first (recursion), then elaborate the body
	if si.fuel {
		ps = append([]string{"Fuel"}, ps...)
		env.fuelSelf = sf.Name
	}
	m := P.addModule(si.sym, fmt.Sprintf("(declare-fun %s (%s) %s)", si.sym, strings.Join(ps, " "), rs))
	body, err := env.elab(sf.Body)
	if err != nil {
		return nil, fmt.Errorf("spec %s: %v", sf.Name, err)
	}
	body = coerceNil(body, rs)
	if body.T.Sort != rs {
		return nil, fmt.Errorf("spec %s: body has sort %s, declared %s", sf.Name, body.T.Sort, rs)
	}
	recursive := containsSym(body.T.S, si.sym) || strings.Contains(body.T.S, "(forall ") || strings.Contains(body.T.S, "(exists ") || sf.Opaque
	if len(ps) == 0 {
		m.decl = fmt.Sprintf("(declare-const %s %s)", si.sym, rs)
		m.axioms = []string{fmt.Sprintf("(assert (= %s %s))", si.sym, body.T.S)}
	} else if !recursive {
		m.decl = fmt.Sprintf("(define-fun %s (%s) %s %s)", si.sym, strings.Join(qs, " "), rs, body.T.S)
	} else if si.fuel {
		// fuel-limited unfolding: f(S(ly), x) = body[f(ly, .)] and f(S(ly), x) = f(ly, x)
		call := fmt.Sprintf("(%s (FS ly) %s)", si.sym, strings.Join(as, " "))
		low := fmt.Sprintf("(%s ly %s)", si.sym, strings.Join(as, " "))
		q := "(ly Fuel) " + strings.Join(qs, " ")
		m.axioms = []string{
			fmt.Sprintf("(assert (forall (%s) (! (= %s %s) :pattern (%s))))", q, call, body.T.S, call),
			fmt.Sprintf("(assert (forall (%s) (! (= %s %s) :pattern (%s))))", q, call, low, call),
		}
	} else {
		call := fmt.Sprintf("(%s %s)", si.sym, strings.Join(as, " "))
		m.axioms = []string{fmt.Sprintf("(assert (forall (%s) (! (= %s %s) :pattern (%s))))", strings.Join(qs, " "), call, body.T.S, call)}
	}
	return si, nil
}

func containsSym(text, sym string) bool {
	for i := 0; i+len(sym) <= len(text); {
		j := strings.Index(text[i:], sym)
		if j < 0 {
			return false
		}
		j += i
		before := j == 0 || !isSymChar(text[j-1])
		after := j+len(sym) == len(text) || !isSymChar(text[j+len(sym)])
		if before && after {
			return true
		}
		i = j + 1
	}
	return false
}

func isSymChar(c byte) bool {
	return isIdCont(c) || c == '$' || c == '!' || c == '.' || c == '@'
}

// symbolsIn returns the identifier-like tokens of an SMT text.
func symbolsIn(text string, out map[string]bool) {
	i := 0
	for i < len(text) {
		c := text[i]
		if c == ';' { // comment
			for i < len(text) && text[i] != '\n' {
				i++
			}
			continue
		}
		if isIdStart(c) {
			j := i
			for j < len(text) && isSymChar(text[j]) {
				j++
			}
			out[text[i:j]] = true
			i = j
			continue
		}
		i++
	}
}

// closure computes the modules needed by a VC text.
func (P *Prog) closure(text string, extra []string) []*module {
	seen := map[string]bool{}
	var work []string
	syms := map[string]bool{}
	symbolsIn(text, syms)
	for _, e := range extra {
		symbolsIn(e, syms)
	}
	for s := range syms {
		if _, ok := P.modules[s]; ok {
			work = append(work, s)
		}
	}
	var res []*module
	for len(work) > 0 {
		s := work[len(work)-1]
		work = work[:len(work)-1]
		if seen[s] {
			continue
		}
		seen[s] = true
		m := P.modules[s]
		res = append(res, m)
		ss := map[string]bool{}
		symbolsIn(m.decl, ss)
		for _, a := range m.axioms {
			symbolsIn(a, ss)
		}
		for s2 := range ss {
			if _, ok := P.modules[s2]; ok && !seen[s2] {
				work = append(work, s2)
			}
		}
	}
	// dependency order: define-funs must follow what they use; sort topologically by DFS
	byName := map[string]*module{}
	for _, m := range res {
		byName[m.name] = m
	}
	var out []*module
	state := map[string]int{}
	var visit func(m *module)
	visit = func(m *module) {
		if state[m.name] != 0 {
			return
		}
		state[m.name] = 1
		ss := map[string]bool{}
		symbolsIn(m.decl, ss)
		var ds []string
		for s := range ss {
			if d, ok := byName[s]; ok && d != m {
				ds = append(ds, d.name)
			}
		}
		sort.Strings(ds)
		for _, d := range ds {
			visit(byName[d])
		}
		state[m.name] = 2
		out = append(out, m)
	}
	sort.Slice(res, func(i, j int) bool { return res[i].order < res[j].order })
	for _, m := range res {
		visit(m)
	}
	return out
}

// embeddable: the struct type occurs by value inside another struct, array or slice of the loaded
// program, so a pointer to it may be an interior pointer.
func (P *Prog) embeddable(t types.Type) bool {
	if P.embed == nil {
		P.embed = map[string]bool{}
		var visit func(tt types.Type, top bool)
		seen := map[string]bool{}
		visit = func(tt types.Type, top bool) {
			switch u := tt.Underlying().(type) {
			case *types.Struct:
				k := typeKey(tt)
				if !top {
					P.embed[k] = true
				}
				if seen[k] {
					return
				}
				seen[k] = true
				for i := 0; i < u.NumFields(); i++ {
					visit(u.Field(i).Type(), false)
				}
			case *types.Array:
				visit(u.Elem(), false)
			case *types.Slice:
				visit(u.Elem(), false)
			case *types.Pointer:
				if _, ok := u.Elem().Underlying().(*types.Struct); ok {
					visit(u.Elem(), true)
				}
			case *types.Map:
				visit(u.Key(), false)
				visit(u.Elem(), false)
			}
		}
		for _, pk := range P.pkgs {
			sc := pk.Types.Scope()
			for _, n := range sc.Names() {
				if tn, ok := sc.Lookup(n).(*types.TypeName); ok {
					visit(tn.Type(), true)
				}
			}
		}
	}
	return P.embed[typeKey(t)]
}

// ifacePureSym: the SMT function standing for a pure interface method (contract marked pure).
func (P *Prog) ifacePureSym(t types.Type, method string) (string, types.Type, error) {
	if t == nil {
		return "", nil, fmt.Errorf("method %s of untyped value", method)
	}
	it, ok := t.Underlying().(*types.Interface)
	if !ok {
		return "", nil, fmt.Errorf("%s.%s: not an interface value", t, method)
	}
	tn := typeKey(t)
	if i := strings.LastIndex(tn, "."); i >= 0 {
		tn = tn[i+1:]
	}
	fc, ok := P.ifaces[tn+"."+method]
	if !ok || !fc.Pure {
		return "", nil, fmt.Errorf("interface method %s.%s has no pure contract", tn, method)
	}
	for i := 0; i < it.NumMethods(); i++ {
		m := it.Method(i)
		if m.Name() != method {
			continue
		}
		sig := m.Type().(*types.Signature)
		if sig.Results().Len() != 1 {
			return "", nil, fmt.Errorf("pure interface method %s.%s must have one result", tn, method)
		}
		sym := "IFM_" + sanitize(tn) + "_" + method
		ps := []string{"Iface"}
		for j := 0; j < sig.Params().Len(); j++ {
			ps = append(ps, P.sorts.sortOf(sig.Params().At(j).Type()))
		}
		rt := sig.Results().At(0).Type()
		P.addModule(sym, fmt.Sprintf("(declare-fun %s (%s) %s)", sym, strings.Join(ps, " "), P.sorts.sortOf(rt)))
		return sym, rt, nil
	}
	return "", nil, fmt.Errorf("no method %s in %s", method, t)
}
