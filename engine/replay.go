package main

// Replay of solver models on the real code (go test -overlay; nothing is written to /repo).

import (
	"encoding/json"
	"fmt"
	"go/types"
	"os"
	"os/exec"
	"path/filepath"
	"strconv"
	"strings"

	"golang.org/x/tools/go/ssa"
)

const maxModelStr = 40

type paramSpec struct {
	name string
	kind string // int bool string
	goT  types.Type
}

// replayable: plain function whose parameters are all int/bool/string
func replayParams(fn *ssa.Function) ([]paramSpec, bool) {
	if fn.Signature.Recv() != nil || len(fn.FreeVars) > 0 || fn.Parent() != nil {
		return nil, false
	}
	var ps []paramSpec
	for _, p := range fn.Params {
		k := kindOfType(p.Type())
		if k != "int" && k != "bool" && k != "string" {
			return nil, false
		}
		ps = append(ps, paramSpec{p.Name(), k, p.Type()})
	}
	return ps, true
}

// modelQuery: get-value command for the parameters
func modelQuery(ps []paramSpec) string {
	var ts []string
	for _, p := range ps {
		n := "p_" + sanitize(p.name)
		switch p.kind {
		case "string":
			ts = append(ts, fmt.Sprintf("(slen %s)", n))
			for i := 0; i < maxModelStr; i++ {
				ts = append(ts, fmt.Sprintf("(sat %s %d)", n, i))
			}
		default:
			ts = append(ts, n)
		}
	}
	if len(ts) == 0 {
		return ""
	}
	return "(get-value (" + strings.Join(ts, " ") + "))\n"
}

// parseValues extracts "(term value)" pairs from get-value output.
func parseValues(out string) map[string]string {
	res := map[string]string{}
	i := strings.Index(out, "((")
	if i < 0 {
		return res
	}
	s := out[i:]
	// tokenise s-expressions at depth 2
	depth := 0
	start := -1
	for j := 0; j < len(s); j++ {
		switch s[j] {
		case '(':
			depth++
			if depth == 2 {
				start = j
			}
		case ')':
			if depth == 2 && start >= 0 {
				pair := s[start+1 : j]
				// split into term and value: term is first balanced sexpr or atom
				k := 0
				if pair[0] == '(' {
					d := 0
					for k = 0; k < len(pair); k++ {
						if pair[k] == '(' {
							d++
						} else if pair[k] == ')' {
							d--
							if d == 0 {
								k++
								break
							}
						}
					}
				} else {
					for k < len(pair) && pair[k] != ' ' {
						k++
					}
				}
				term := strings.TrimSpace(pair[:k])
				val := strings.TrimSpace(pair[k:])
				res[term] = val
				start = -1
			}
			depth--
			if depth == 0 {
				return res
			}
		}
	}
	return res
}

func smtInt(v string) (int64, bool) {
	v = strings.TrimSpace(v)
	neg := false
	if strings.HasPrefix(v, "(-") {
		neg = true
		v = strings.TrimSpace(strings.TrimSuffix(strings.TrimPrefix(v, "(-"), ")"))
	}
	n, err := strconv.ParseInt(v, 10, 64)
	if err != nil {
		return 0, false
	}
	if neg {
		n = -n
	}
	return n, true
}

func goStringLit(b []byte) string {
	var sb strings.Builder
	sb.WriteString("\"")
	for _, c := range b {
		if c >= 32 && c < 127 && c != '"' && c != '\\' {
			sb.WriteByte(c)
		} else {
			sb.WriteString(fmt.Sprintf("\\x%02x", c))
		}
	}
	sb.WriteString("\"")
	return sb.String()
}

type replayInfo struct {
	Applicable bool              `json:"applicable"`
	Reason     string            `json:"reason,omitempty"`
	Inputs     map[string]string `json:"inputs,omitempty"`
	Command    string            `json:"command,omitempty"`
	Output     string            `json:"output,omitempty"`
	Confirmed  bool              `json:"confirmed"`
	Failed     []string          `json:"failed_clauses,omitempty"`
	QuantBound int               `json:"quantifier_bound,omitempty"`
}

func tryReplay(P *Prog, vc *VC, repo, work string) (bool, interface{}) {
	info := &replayInfo{}
	fn := vc.fn
	if fn == nil {
		info.Reason = "not a function obligation"
		return false, info
	}
	ps, ok := replayParams(fn)
	if !ok {
		info.Reason = "signature outside the replay fragment (receiver, closure or non-scalar parameters)"
		return false, info
	}
	vals := parseValues(vc.ModelOut)
	if len(vals) == 0 && len(ps) > 0 {
		info.Reason = "solver gave no model values"
		return false, info
	}
	inputs := map[string]string{}
	maxLen := 0
	for _, p := range ps {
		n := "p_" + sanitize(p.name)
		switch p.kind {
		case "int":
			v, ok := smtInt(vals[n])
			if !ok {
				info.Reason = "no value for " + p.name
				return false, info
			}
			lo, hi, sized := intRange(p.goT)
			if sized && (v < lo.Int64() || (hi.IsInt64() && v > hi.Int64())) {
				info.Reason = "model value out of range for " + p.name
				return false, info
			}
			inputs[p.name] = fmt.Sprintf("%d", v)
		case "bool":
			inputs[p.name] = vals[n]
		case "string":
			l, ok := smtInt(vals[fmt.Sprintf("(slen %s)", n)])
			if !ok || l < 0 || l > maxModelStr {
				info.Reason = fmt.Sprintf("model string %s has length %s (cap %d)", p.name, vals[fmt.Sprintf("(slen %s)", n)], maxModelStr)
				return false, info
			}
			b := make([]byte, l)
			for i := int64(0); i < l; i++ {
				c, ok := smtInt(vals[fmt.Sprintf("(sat %s %d)", n, i)])
				if !ok || c < 0 || c > 255 {
					c = 'a'
				}
				b[i] = byte(c)
			}
			inputs[p.name] = goStringLit(b)
			if int(l) > maxLen {
				maxLen = int(l)
			}
		}
	}
	info.Inputs = inputs
	ok2, failed, cmd, out, reason := runContractOnInputs(P, fn, vc.fc, ps, inputs, maxLen+3, repo, work)
	info.Command, info.Output, info.Reason = cmd, truncate(out, 4000), reason
	info.QuantBound = maxLen + 3
	if !ok2 {
		return false, info
	}
	info.Applicable = true
	info.Failed = failed
	info.Confirmed = len(failed) > 0
	return info.Confirmed, info
}

// runContractOnInputs runs the real function on concrete inputs and evaluates the compiled contract.
func runContractOnInputs(P *Prog, fn *ssa.Function, fc *FuncContract, ps []paramSpec, inputs map[string]string, bound int, repo, work string) (ok bool, failed []string, cmd, out, reason string) {
	g := newGoComp(P, fn.Pkg.Pkg)
	inRepo0 := false
	for _, pk := range P.pkgs {
		if pk.Types == fn.Pkg.Pkg {
			inRepo0 = true
		}
	}
	if !inRepo0 {
		g.host = nil
	}
	env := &goEnv{vars: map[string]goVal{}}
	var decl strings.Builder
	var args []string
	search := inputs == nil
	for _, p := range ps {
		gt := map[string]string{"int": "int", "bool": "bool", "string": "string"}[p.kind]
		if search {
			decl.WriteString(fmt.Sprintf("\tin_%s := gIn_%s\n", p.name, p.name))
		} else {
			decl.WriteString(fmt.Sprintf("\tvar in_%s %s = %s\n", p.name, gt, inputs[p.name]))
		}
		env.vars[p.name] = goVal{code: "in_" + p.name, kind: p.kind, goT: p.goT}
		if p.kind == "int" {
			args = append(args, types.TypeString(p.goT, func(pk *types.Package) string { return pk.Name() })+"(in_"+p.name+")")
		} else {
			args = append(args, "in_"+p.name)
		}
	}
	sig := fn.Signature
	var outs []string
	for i := 0; i < sig.Results().Len(); i++ {
		r := sig.Results().At(i)
		vn := fmt.Sprintf("out%d", i)
		outs = append(outs, vn)
		k := kindOfType(r.Type())
		code := vn
		if k == "int" {
			code = "int(" + vn + ")"
		}
		gv := goVal{code: code, kind: k, goT: r.Type()}
		env.vars[fmt.Sprintf("result%d", i)] = gv
		if i == 0 {
			env.vars["result"] = gv
		}
		if r.Name() != "" && r.Name() != "_" {
			env.vars[r.Name()] = gv
		}
	}
	var checks strings.Builder
	n := 0
	for i, c := range fc.Requires {
		g.err = nil
		v := g.compile(c.E, env)
		if g.err != nil {
			return false, nil, "", "", "requires clause outside the executable fragment: " + g.err.Error()
		}
		checks.WriteString(fmt.Sprintf("\tgCheck(\"requires.%d\", func() bool { return %s })\n", i, v.code))
	}
	for i, c := range fc.Ensures {
		g.err = nil
		v := g.compile(c.E, env)
		if g.err != nil {
			continue
		}
		name := fmt.Sprintf("post.%d", i)
		if c.Name != "" {
			name = "post." + c.Name
		}
		checks.WriteString(fmt.Sprintf("\tgCheck(%q, func() bool { return %s })\n", name, v.code))
		n++
	}
	g.err = nil
	// functions outside the repository (library contracts) are called from a host package of the repo
	hostPkgName := fn.Pkg.Pkg.Name()
	qual := ""
	inRepo := false
	for _, pk := range P.pkgs {
		if pk.Types == fn.Pkg.Pkg {
			inRepo = true
		}
	}
	if !inRepo {
		hostPkgName = P.pkgs[0].Types.Name() + "_test"
		qual = fn.Pkg.Pkg.Name() + "."
		g.imports[fn.Pkg.Pkg.Name()] = fn.Pkg.Pkg.Path()
	}
	call := qual + fn.Name() + "(" + strings.Join(args, ", ") + ")"
	if len(outs) > 0 {
		call = strings.Join(outs, ", ") + " := " + call
	}
	var use strings.Builder
	for _, o := range outs {
		use.WriteString("\t_ = " + o + "\n")
	}
	var imps strings.Builder
	imps.WriteString("import (\n\t\"fmt\"\n\t\"strings\"\n\t\"testing\"\n")
	delete(g.imports, "strings")
	helpers := goHelpers
	if _, ok := g.imports["utf8"]; ok {
		helpers += goRuneHelpers
	}
	for alias, path := range g.imports {
		imps.WriteString(fmt.Sprintf("\t%s %q\n", alias, path))
	}
	imps.WriteString(")\n")
	imps.Reset()
	imps.WriteString("import (\n\t\"fmt\"\n\t\"strings\"\n\t\"testing\"\n")
	delete(g.imports, "strings")
	for alias, path := range g.imports {
		imps.WriteString(fmt.Sprintf("\t%s %q\n", alias, path))
	}
	imps.WriteString(")\n")
	src := fmt.Sprintf(`package %s

%s
%s
%s
func gCheck(name string, f func() bool) {
	defer func() {
		if r := recover(); r != nil {
			if u, ok := r.(gUndef); ok {
				fmt.Printf("REPLAY-CLAUSE %%s undefined(%%s)\n", name, u.why)
				return
			}
			panic(r)
		}
	}()
	v := f()
	if strings.HasPrefix(name, "requires.") && !v {
		gReqOK = false
	}
	if strings.HasPrefix(name, "post.") && !v && gReqOK {
		gFailed = true
	}
	if !gQuiet {
		fmt.Printf("REPLAY-CLAUSE %%s %%v\n", name, v)
	}
}

var gQuiet = false
var gFailed = false
var gReqOK = true

func gRunOne(%s) {
	gBound = %d
%s	defer func() {
		if r := recover(); r != nil {
			gFailed = true
			if !gQuiet {
				fmt.Printf("REPLAY-PANIC %%v\n", r)
			}
		}
	}()
	%s
%s	if !gQuiet {
		fmt.Printf("REPLAY-OUT %%#v\n", []interface{}{%s})
	}
%s}

%s
`, hostPkgName, imps.String(), helpers, g.emitFuncs(), runParams(ps, search), bound, decl.String(), call, use.String(), strings.Join(outs, ", "), checks.String(), driver(ps, search, fn, bound))
	// locate package dir
	dir := ""
	for _, pk := range P.pkgs {
		if pk.Types == fn.Pkg.Pkg && len(pk.GoFiles) > 0 {
			dir = filepath.Dir(pk.GoFiles[0])
		}
	}
	if !inRepo {
		dir = filepath.Dir(P.pkgs[0].GoFiles[0])
	}
	if dir == "" {
		return false, nil, "", "", "package directory not found"
	}
	tf := filepath.Join(work, "zz_govc_replay_"+sanitize(fn.Name())+"_test.go")
	if err := os.WriteFile(tf, []byte(src), 0o644); err != nil {
		return false, nil, "", "", err.Error()
	}
	ov := map[string]interface{}{"Replace": map[string]string{filepath.Join(dir, "zz_govc_replay_test.go"): tf}}
	ob, _ := json.Marshal(ov)
	of := filepath.Join(work, "overlay_"+sanitize(fn.Name())+".json")
	os.WriteFile(of, ob, 0o644)
	c := exec.Command("go", "test", "-overlay", of, "-vet=off", "-v", "-count=1", "-timeout", "120s", "-run", "^TestGovcReplay$", ".")
	c.Dir = dir
	c.Env = append(os.Environ(), "GOFLAGS=-mod=mod", "GOPROXY=off", "GOSUMDB=off", "GOTOOLCHAIN=local")
	b, _ := c.CombinedOutput()
	out = string(b)
	cmd = "cd " + dir + " && go test -overlay <overlay> -vet=off -count=1 -timeout 60s -run ^TestGovcReplay$ ."
	if !strings.Contains(out, "REPLAY-") {
		return false, nil, cmd, out, "replay test did not run"
	}
	reqOK := true
	for _, ln := range strings.Split(out, "\n") {
		f := strings.Fields(ln)
		if len(f) >= 3 && f[0] == "REPLAY-CLAUSE" {
			if strings.HasPrefix(f[1], "requires.") && f[2] != "true" {
				reqOK = false
			}
			if strings.HasPrefix(f[1], "post.") && f[2] == "false" {
				failed = append(failed, f[1])
			}
		}
		if len(f) >= 1 && f[0] == "REPLAY-PANIC" {
			failed = append(failed, "panic: "+strings.TrimPrefix(ln, "REPLAY-PANIC "))
		}
	}
	if !reqOK {
		return true, nil, cmd, out, "model inputs do not satisfy the precondition on the real code (spurious model)"
	}
	return true, failed, cmd, out, ""
}

func runParams(ps []paramSpec, search bool) string {
	if !search {
		return ""
	}
	var xs []string
	for _, p := range ps {
		gt := map[string]string{"int": "int", "bool": "bool", "string": "string"}[p.kind]
		xs = append(xs, "gIn_"+p.name+" "+gt)
	}
	return strings.Join(xs, ", ")
}

// driver: either one run on model inputs, or a bounded enumeration of small inputs
func driver(ps []paramSpec, search bool, fn *ssa.Function, bound int) string {
	if !search {
		return "func TestGovcReplay(t *testing.T) { gRunOne() }\n"
	}
	alpha := searchAlphabet(fn)
	var sb strings.Builder
	sb.WriteString(fmt.Sprintf("var gAlpha = %q\n", alpha))
	sb.WriteString(`func gStrings(maxLen int) []string {
	out := []string{""}
	prev := []string{""}
	for l := 1; l <= maxLen; l++ {
		var cur []string
		for _, p := range prev {
			for i := 0; i < len(gAlpha); i++ {
				cur = append(cur, p+string(gAlpha[i]))
			}
		}
		out = append(out, cur...)
		prev = cur
	}
	return out
}
func TestGovcReplay(t *testing.T) {
	gQuiet = true
	n := 0
`)
	nstr := 0
	for _, p := range ps {
		if p.kind == "string" {
			nstr++
		}
	}
	maxLen := 5
	if nstr >= 2 {
		maxLen = 3
	}
	if len(alpha) > 10 && nstr == 1 {
		maxLen = 4
	}
	if len(alpha) > 10 && nstr >= 2 {
		maxLen = 2
	}
	var names []string
	for _, p := range ps {
		switch p.kind {
		case "string":
			sb.WriteString(fmt.Sprintf("\tfor _, v_%s := range gStrings(%d) {\n", p.name, maxLen))
		case "bool":
			sb.WriteString(fmt.Sprintf("\tfor _, v_%s := range []bool{false, true} {\n", p.name))
		case "int":
			sb.WriteString(fmt.Sprintf("\tfor _, v_%s := range gInts {\n", p.name))
		}
		names = append(names, "v_"+p.name)
	}
	sb.WriteString("\t\tgFailed, gReqOK = false, true\n\t\tn++\n\t\tgRunOne(" + strings.Join(names, ", ") + ")\n")
	sb.WriteString("\t\tif gFailed && gReqOK {\n\t\t\tfmt.Printf(\"REPLAY-FOUND %#v\\n\", []interface{}{" + strings.Join(names, ", ") + "})\n\t\t\tgQuiet = false\n\t\t\tgRunOne(" + strings.Join(names, ", ") + ")\n\t\t\treturn\n\t\t}\n")
	for range ps {
		sb.WriteString("\t}\n")
	}
	sb.WriteString("\tfmt.Printf(\"REPLAY-SEARCHED %d inputs, none fails\\n\", n)\n}\n")
	sb.WriteString("var gInts = []int{-1, 0, 1, 2, 3, 7, 45, 46, 47, 48, 57, 58, 64, 65, 90, 91, 96, 97, 122, 123, 126, 127, 128, 255, 256, 0x10FFFF}\n")
	return sb.String()
}

// searchAlphabet: characters that matter for fn: literals in its body plus a few generic ones
func searchAlphabet(fn *ssa.Function) string {
	seen := map[byte]bool{}
	var out []byte
	add := func(c byte) {
		if !seen[c] && len(out) < 12 {
			seen[c] = true
			out = append(out, c)
		}
	}
	for _, b := range fn.Blocks {
		for _, in := range b.Instrs {
			for _, op := range in.Operands(nil) {
				if c, ok := (*op).(*ssa.Const); ok && c.Value != nil {
					if k := kindOfType(c.Type()); k == "int" {
						if v := c.Int64(); v >= 32 && v < 127 {
							add(byte(v))
						}
					} else if k == "string" {
						s := strings.Trim(c.Value.ExactString(), "\"")
						for i := 0; i < len(s) && i < 3; i++ {
							if s[i] >= 32 && s[i] < 127 && s[i] != '\\' {
								add(s[i])
							}
						}
					}
				}
			}
		}
	}
	for _, c := range []byte("0a1.v-A/~+") {
		add(c)
	}
	return string(out)
}

// searchFailingInput: bounded enumeration of small inputs through the real function and its compiled contract
func searchFailingInput(P *Prog, vc *VC, repo, work string) (bool, interface{}) {
	info := &replayInfo{}
	if vc.fn == nil {
		info.Reason = "not a function obligation"
		return false, info
	}
	ps, ok := replayParams(vc.fn)
	if !ok {
		info.Reason = "signature outside the replay fragment (receiver, closure or non-scalar parameters)"
		return false, info
	}
	ok2, failed, cmd, out, reason := runContractOnInputs(P, vc.fn, vc.fc, ps, nil, 8, repo, work)
	info.Command, info.Output, info.Reason = cmd, truncate(out, 4000), reason
	info.QuantBound = 8
	if !ok2 {
		return false, info
	}
	info.Applicable = true
	for _, ln := range strings.Split(out, "\n") {
		if strings.HasPrefix(ln, "REPLAY-FOUND ") {
			info.Inputs = map[string]string{"found_by_bounded_enumeration": strings.TrimPrefix(ln, "REPLAY-FOUND ")}
		}
	}
	info.Failed = failed
	info.Confirmed = len(failed) > 0 && info.Inputs != nil
	if !info.Confirmed && info.Reason == "" {
		info.Reason = "solver returned no model (quantified goal); bounded enumeration of small inputs found no failing input"
	}
	return info.Confirmed, info
}
