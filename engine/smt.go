package main

// SMT term helpers, Go type -> SMT sort mapping, prelude.

import (
	"regexp"
	"fmt"
	"go/types"
	"math/big"
	"sort"
	"strings"
)

type Term struct {
	S    string
	Sort string
}

func T(sort, f string, a ...interface{}) Term { return Term{fmt.Sprintf(f, a...), sort} }

var (
	tTrue  = Term{"true", "Bool"}
	tFalse = Term{"false", "Bool"}
)

func intLit(n int64) Term {
	if n < 0 {
		return Term{fmt.Sprintf("(- %d)", -n), "Int"}
	}
	return Term{fmt.Sprintf("%d", n), "Int"}
}

func bigLit(n *big.Int) Term {
	if n.Sign() < 0 {
		return Term{fmt.Sprintf("(- %s)", new(big.Int).Neg(n).String()), "Int"}
	}
	return Term{n.String(), "Int"}
}

func app(sort, f string, args ...Term) Term {
	var sb strings.Builder
	sb.WriteString("(" + f)
	for _, a := range args {
		sb.WriteString(" " + a.S)
	}
	sb.WriteString(")")
	return Term{sb.String(), sort}
}

func and(ts ...Term) Term {
	var xs []Term
	for _, t := range ts {
		if t.S == "true" {
			continue
		}
		if t.S == "false" {
			return tFalse
		}
		xs = append(xs, t)
	}
	if len(xs) == 0 {
		return tTrue
	}
	if len(xs) == 1 {
		return xs[0]
	}
	return app("Bool", "and", xs...)
}
func or(ts ...Term) Term {
	var xs []Term
	for _, t := range ts {
		if t.S == "false" {
			continue
		}
		if t.S == "true" {
			return tTrue
		}
		xs = append(xs, t)
	}
	if len(xs) == 0 {
		return tFalse
	}
	if len(xs) == 1 {
		return xs[0]
	}
	return app("Bool", "or", xs...)
}
func not(t Term) Term {
	if t.S == "true" {
		return tFalse
	}
	if t.S == "false" {
		return tTrue
	}
	return app("Bool", "not", t)
}
func implies(a, b Term) Term {
	if a.S == "true" {
		return b
	}
	if b.S == "true" {
		return tTrue
	}
	return app("Bool", "=>", a, b)
}
func eq(a, b Term) Term {
	if a.S == b.S {
		return tTrue
	}
	return app("Bool", "=", a, b)
}
func ite(c, a, b Term) Term {
	if c.S == "true" {
		return a
	}
	if c.S == "false" {
		return b
	}
	if a.S == b.S {
		return a
	}
	return app(a.Sort, "ite", c, a, b)
}

// ---------- sorts ----------

type structInfo struct {
	sort   string
	ctor   string
	fields []string // accessor names
	fsorts []string
	st     *types.Struct
}

type Sorts struct {
	decls   []string // datatype declarations in dependency order
	structs map[string]*structInfo
	typeIDs map[string]int
	arrays  map[string]bool
	zarr    map[string]string
	qual    types.Qualifier
}

func newSorts() *Sorts {
	return &Sorts{structs: map[string]*structInfo{}, typeIDs: map[string]int{}, arrays: map[string]bool{}}
}

func sanitize(s string) string {
	var sb strings.Builder
	for _, c := range s {
		switch {
		case c >= 'a' && c <= 'z', c >= 'A' && c <= 'Z', c >= '0' && c <= '9', c == '_':
			sb.WriteRune(c)
		case c == '.' || c == '/':
			sb.WriteString("_")
		case c == '*':
			sb.WriteString("P")
		case c == '[':
			sb.WriteString("L")
		case c == ']':
			sb.WriteString("R")
		case c == '$':
			sb.WriteString("S")
		default:
			sb.WriteString("_")
		}
	}
	return sb.String()
}

func typeKey(t types.Type) string {
	s := types.TypeString(t, func(p *types.Package) string { return p.Name() })
	// predeclared aliases print under their alias name: canonicalise
	return aliasRe.ReplaceAllStringFunc(s, func(m string) string {
		switch m {
		case "byte":
			return "uint8"
		case "rune":
			return "int32"
		case "any":
			return "interface{}"
		}
		return m
	})
}

var aliasRe = regexp.MustCompile(`\b(byte|rune|any)\b`)

func (so *Sorts) typeID(t types.Type) int {
	k := typeKey(t)
	if id, ok := so.typeIDs[k]; ok {
		return id
	}
	id := len(so.typeIDs) + 1
	so.typeIDs[k] = id
	return id
}

// sortOf maps a Go type to an SMT sort name.
func (so *Sorts) sortOf(t types.Type) string {
	switch u := t.Underlying().(type) {
	case *types.Basic:
		switch {
		case u.Info()&types.IsBoolean != 0:
			return "Bool"
		case u.Info()&types.IsInteger != 0:
			return "Int"
		case u.Info()&types.IsString != 0:
			return "Str"
		case u.Kind() == types.UnsafePointer, u.Kind() == types.UntypedNil:
			return "Int"
		case u.Info()&types.IsFloat != 0:
			return "Real"
		}
		return "Int"
	case *types.Pointer, *types.Map, *types.Chan, *types.Signature:
		return "Int"
	case *types.Interface:
		return "Iface"
	case *types.Slice:
		return "Slice"
	case *types.Array:
		return fmt.Sprintf("(Array Int %s)", so.sortOf(u.Elem()))
	case *types.Struct:
		return so.structSort(t, u)
	case *types.Tuple:
		return "Tuple"
	}
	return "Int"
}

func (so *Sorts) structSort(t types.Type, st *types.Struct) string {
	key := typeKey(t)
	if si, ok := so.structs[key]; ok {
		return si.sort
	}
	name := "S_" + sanitize(key)
	if _, named := t.(*types.Named); !named {
		name = fmt.Sprintf("S_anon%d", len(so.structs))
	}
	si := &structInfo{sort: name, ctor: "mk_" + name, st: st}
	so.structs[key] = si
	var fl []string
	for i := 0; i < st.NumFields(); i++ {
		f := st.Field(i)
		fs := so.sortOf(f.Type())
		acc := fmt.Sprintf("%s_%s", name, sanitize(f.Name()))
		si.fields = append(si.fields, acc)
		si.fsorts = append(si.fsorts, fs)
		fl = append(fl, fmt.Sprintf("(%s %s)", acc, fs))
	}
	if st.NumFields() == 0 {
		so.decls = append(so.decls, fmt.Sprintf("(declare-datatypes ((%s 0)) (((%s))))", name, si.ctor))
	} else {
		so.decls = append(so.decls, fmt.Sprintf("(declare-datatypes ((%s 0)) (((%s %s))))", name, si.ctor, strings.Join(fl, " ")))
	}
	return name
}

func (so *Sorts) structInfoOf(t types.Type) *structInfo {
	st, ok := t.Underlying().(*types.Struct)
	if !ok {
		return nil
	}
	so.structSort(t, st)
	return so.structs[typeKey(t)]
}

// zero value of a Go type
func (so *Sorts) zero(t types.Type) Term {
	s := so.sortOf(t)
	switch u := t.Underlying().(type) {
	case *types.Struct:
		si := so.structInfoOf(t)
		if len(si.fields) == 0 {
			return Term{si.ctor, s}
		}
		var args []Term
		for i := 0; i < u.NumFields(); i++ {
			args = append(args, so.zero(u.Field(i).Type()))
		}
		return app(s, si.ctor, args...)
	case *types.Array:
		return so.constArray(s, so.zero(u.Elem()))
	}
	return zeroOfSort(s)
}

func zeroOfSort(s string) Term {
	switch s {
	case "Int":
		return Term{"0", s}
	case "Bool":
		return tFalse
	case "Str":
		return Term{"sempty", s}
	case "Slice":
		return Term{"(mk_slice 0 0 0 0)", s}
	case "Iface":
		return Term{"(mk_iface 0 0)", s}
	case "Real":
		return Term{"0.0", s}
	}
	return Term{"0", s}
}

// integer range of a basic type: returns (lo, hi, ok)
func intRange(t types.Type) (lo, hi *big.Int, ok bool) {
	b, isB := t.Underlying().(*types.Basic)
	if !isB || b.Info()&types.IsInteger == 0 {
		return nil, nil, false
	}
	bits := 64
	switch b.Kind() {
	case types.Int8, types.Uint8:
		bits = 8
	case types.Int16, types.Uint16:
		bits = 16
	case types.Int32, types.Uint32:
		bits = 32
	case types.UntypedInt, types.UntypedRune:
		return nil, nil, false
	}
	one := big.NewInt(1)
	if b.Info()&types.IsUnsigned != 0 {
		return big.NewInt(0), new(big.Int).Sub(new(big.Int).Lsh(one, uint(bits)), one), true
	}
	h := new(big.Int).Lsh(one, uint(bits-1))
	return new(big.Int).Neg(h), new(big.Int).Sub(h, one), true
}

func inRange(v Term, t types.Type) Term {
	lo, hi, ok := intRange(t)
	if !ok {
		return tTrue
	}
	return and(app("Bool", "<=", bigLit(lo), v), app("Bool", "<=", v, bigLit(hi)))
}

// typeAssume returns the well-typedness assumption for a value of Go type t.
func (so *Sorts) typeAssume(v Term, t types.Type) Term {
	switch u := t.Underlying().(type) {
	case *types.Basic:
		if u.Info()&types.IsInteger != 0 {
			return inRange(v, t)
		}
		if u.Info()&types.IsString != 0 {
			return app("Bool", "<=", app("Int", "slen", v), Term{maxLenS, "Int"})
		}
	case *types.Slice:
		return app("Bool", "slice_ok", v)
	case *types.Struct:
		si := so.structInfoOf(t)
		var cs []Term
		for i := 0; i < u.NumFields(); i++ {
			cs = append(cs, so.typeAssume(app(si.fsorts[i], si.fields[i], v), u.Field(i).Type()))
		}
		return and(cs...)
	case *types.Pointer, *types.Map:
		return app("Bool", "<=", Term{"0", "Int"}, v)
	case *types.Array:
		// elements of an integer array value are in the range of their type
		if eb, ok := u.Elem().Underlying().(*types.Basic); ok && eb.Info()&types.IsInteger != 0 && u.Len() < 1<<30 {
			el := Term{"(select " + v.S + " wk)", "Int"}
			return Term{fmt.Sprintf("(forall ((wk Int)) (! %s :pattern (%s)))", inRange(el, u.Elem()).S, el.S), "Bool"}
		}
	}
	return tTrue
}

const maxLenS = "4611686018427387904" // 2^62: assumed bound on string/slice lengths (allocator never exceeds it)

const preludeSMT = `
(set-option :produce-models true)
(set-logic ALL)
(declare-sort Fuel 0)
(declare-fun FS (Fuel) Fuel)
(declare-const FZ Fuel)
(define-fun FMAX () Fuel (FS (FS FZ)))
(declare-sort Str 0)
(declare-fun slen (Str) Int)
(declare-fun sat (Str Int) Int)
(declare-fun ssub (Str Int Int) Str)
(declare-fun scat (Str Str) Str)
(declare-const sempty Str)
(declare-fun streq (Str Str) Bool)
(declare-fun sdiff (Str Str) Int)
(declare-fun schr (Int) Str)
(declare-datatypes ((Slice 0)) (((mk_slice (s_arr Int) (s_off Int) (s_len Int) (s_cap Int)))))
(declare-datatypes ((Iface 0)) (((mk_iface (i_typ Int) (i_val Int)))))
(define-fun nilslice () Slice (mk_slice 0 0 0 0))
; element position of index i of slice s inside its backing array (a symbol, so that it can serve as a trigger)
(declare-fun objtype (Int) Int)
; interior addresses: ia(x, o) is the address of the nested struct at offset o >= 1 of object x
(declare-fun ia (Int Int) Int)
(declare-fun iabase (Int) Int)
(declare-fun iaoff (Int) Int)
(assert (forall ((x Int) (o Int)) (! (and (= (iabase (ia x o)) x) (= (iaoff (ia x o)) o) (not (= (ia x o) 0))) :pattern ((ia x o)))))
(declare-fun eidx (Int Int) Int)
(assert (forall ((o Int) (i Int)) (! (= (eidx o i) (+ o i)) :pattern ((eidx o i)))))
(define-fun nilif () Iface (mk_iface 0 0))
(define-fun slice_ok ((s Slice)) Bool (and (<= 0 (s_arr s)) (<= 0 (s_off s)) (<= 0 (s_len s)) (<= (s_len s) (s_cap s)) (<= (s_cap s) 4611686018427387904) (<= (s_off s) 4611686018427387904) (=> (= (s_arr s) 0) (= (s_cap s) 0))))
(assert (= (slen sempty) 0))
(assert (forall ((s Str)) (! (<= 0 (slen s)) :pattern ((slen s)))))
(assert (forall ((s Str)) (! (=> (= (slen s) 0) (= s sempty)) :pattern ((slen s)))))
(assert (forall ((s Str) (i Int)) (! (and (<= 0 (sat s i)) (<= (sat s i) 255)) :pattern ((sat s i)))))
(assert (forall ((a Str) (b Str)) (! (= (streq a b) (= a b)) :pattern ((streq a b)))))
(assert (forall ((a Str) (b Str)) (! (or (= a b) (not (= (slen a) (slen b))) (and (<= 0 (sdiff a b)) (< (sdiff a b) (slen a)) (not (= (sat a (sdiff a b)) (sat b (sdiff a b)))))) :pattern ((streq a b)))))
(assert (forall ((s Str) (i Int) (j Int)) (! (=> (and (<= 0 i) (<= i j) (<= j (slen s))) (= (slen (ssub s i j)) (- j i))) :pattern ((ssub s i j)))))
(assert (forall ((s Str) (i Int) (j Int) (k Int)) (! (=> (and (<= 0 i) (<= i j) (<= j (slen s)) (<= 0 k) (< k (- j i))) (= (sat (ssub s i j) k) (sat s (+ i k)))) :pattern ((sat (ssub s i j) k)))))
(assert (forall ((s Str) (i Int) (j Int) (k Int)) (! (=> (and (<= 0 i) (<= i k) (< k j) (<= j (slen s))) (= (sat (ssub s i j) (- k i)) (sat s k))) :pattern ((ssub s i j) (sat s k)))))
(assert (forall ((s Str) (i Int) (j Int)) (! (=> (and (= i 0) (= j (slen s))) (= (ssub s i j) s)) :pattern ((ssub s i j)))))
(assert (forall ((s Str) (i Int) (j Int) (a Int) (b Int)) (! (=> (and (<= 0 i) (<= i j) (<= j (slen s)) (<= 0 a) (<= a b) (<= b (- j i))) (= (ssub (ssub s i j) a b) (ssub s (+ i a) (+ i b)))) :pattern ((ssub (ssub s i j) a b)))))
(assert (forall ((a Str) (b Str)) (! (= (slen (scat a b)) (+ (slen a) (slen b))) :pattern ((scat a b)))))
(assert (forall ((a Str) (b Str) (k Int)) (! (= (sat (scat a b) k) (ite (< k (slen a)) (sat a k) (sat b (- k (slen a))))) :pattern ((sat (scat a b) k)))))
(assert (forall ((a Str)) (! (= (scat a sempty) a) :pattern ((scat a sempty)))))
(assert (forall ((a Str)) (! (= (scat sempty a) a) :pattern ((scat sempty a)))))
(assert (forall ((c Int)) (! (and (= (slen (schr c)) 1) (=> (and (<= 0 c) (<= c 255)) (= (sat (schr c) 0) c))) :pattern ((schr c)))))
; string order via first difference
(declare-fun sfd (Str Str) Int)
(declare-fun slt (Str Str) Bool)
(assert (forall ((a Str) (b Str)) (! (and (<= 0 (sfd a b)) (<= (sfd a b) (slen a)) (<= (sfd a b) (slen b))
   (=> (and (< (sfd a b) (slen a)) (< (sfd a b) (slen b))) (not (= (sat a (sfd a b)) (sat b (sfd a b)))))
   (= (slt a b) (or (and (= (sfd a b) (slen a)) (< (sfd a b) (slen b))) (and (< (sfd a b) (slen a)) (< (sfd a b) (slen b)) (< (sat a (sfd a b)) (sat b (sfd a b)))))))
   :pattern ((slt a b)) :pattern ((sfd a b)))))
(assert (forall ((a Str) (b Str) (i Int)) (! (=> (and (<= 0 i) (< i (sfd a b))) (= (sat a i) (sat b i))) :pattern ((sfd a b) (sat a i)) :pattern ((sfd a b) (sat b i)))))
; integer helpers
(declare-fun pow2 (Int) Int)
(assert (= (pow2 0) 1))
(assert (forall ((k Int)) (! (=> (> k 0) (= (pow2 k) (* 2 (pow2 (- k 1))))) :pattern ((pow2 k)))))
(assert (forall ((k Int)) (! (=> (>= k 0) (>= (pow2 k) 1)) :pattern ((pow2 k)))))
(assert (= (pow2 1) 2))
(assert (= (pow2 2) 4))
(assert (= (pow2 3) 8))
(assert (= (pow2 4) 16))
(assert (= (pow2 5) 32))
(assert (= (pow2 6) 64))
(assert (= (pow2 7) 128))
(assert (= (pow2 8) 256))
(assert (= (pow2 9) 512))
(assert (= (pow2 10) 1024))
(assert (= (pow2 11) 2048))
(assert (= (pow2 12) 4096))
(assert (= (pow2 13) 8192))
(assert (= (pow2 14) 16384))
(assert (= (pow2 15) 32768))
(assert (= (pow2 16) 65536))
(assert (= (pow2 17) 131072))
(assert (= (pow2 18) 262144))
(assert (= (pow2 19) 524288))
(assert (= (pow2 20) 1048576))
(assert (= (pow2 21) 2097152))
(assert (= (pow2 22) 4194304))
(assert (= (pow2 23) 8388608))
(assert (= (pow2 24) 16777216))
(assert (= (pow2 25) 33554432))
(assert (= (pow2 26) 67108864))
(assert (= (pow2 27) 134217728))
(assert (= (pow2 28) 268435456))
(assert (= (pow2 29) 536870912))
(assert (= (pow2 30) 1073741824))
(assert (= (pow2 31) 2147483648))
(assert (= (pow2 32) 4294967296))
(assert (= (pow2 33) 8589934592))
(assert (= (pow2 34) 17179869184))
(assert (= (pow2 35) 34359738368))
(assert (= (pow2 36) 68719476736))
(assert (= (pow2 37) 137438953472))
(assert (= (pow2 38) 274877906944))
(assert (= (pow2 39) 549755813888))
(assert (= (pow2 40) 1099511627776))
(assert (= (pow2 41) 2199023255552))
(assert (= (pow2 42) 4398046511104))
(assert (= (pow2 43) 8796093022208))
(assert (= (pow2 44) 17592186044416))
(assert (= (pow2 45) 35184372088832))
(assert (= (pow2 46) 70368744177664))
(assert (= (pow2 47) 140737488355328))
(assert (= (pow2 48) 281474976710656))
(assert (= (pow2 49) 562949953421312))
(assert (= (pow2 50) 1125899906842624))
(assert (= (pow2 51) 2251799813685248))
(assert (= (pow2 52) 4503599627370496))
(assert (= (pow2 53) 9007199254740992))
(assert (= (pow2 54) 18014398509481984))
(assert (= (pow2 55) 36028797018963968))
(assert (= (pow2 56) 72057594037927936))
(assert (= (pow2 57) 144115188075855872))
(assert (= (pow2 58) 288230376151711744))
(assert (= (pow2 59) 576460752303423488))
(assert (= (pow2 60) 1152921504606846976))
(assert (= (pow2 61) 2305843009213693952))
(assert (= (pow2 62) 4611686018427387904))
(assert (= (pow2 63) 9223372036854775808))
(assert (= (pow2 64) 18446744073709551616))
(declare-fun band (Int Int) Int)
(declare-fun bor (Int Int) Int)
(declare-fun bxor (Int Int) Int)
(define-fun shl ((x Int) (k Int)) Int (* x (pow2 k)))
(define-fun shr ((x Int) (k Int)) Int (div x (pow2 k)))
(define-fun wrap ((x Int) (m Int)) Int (ite (and (<= 0 x) (< x m)) x (mod x m)))
(define-fun swrap ((x Int) (m Int)) Int (ite (and (<= (- (div m 2)) x) (< x (div m 2))) x (- (mod (+ x (div m 2)) m) (div m 2))))
(assert (forall ((x Int) (y Int)) (! (=> (and (<= 0 x) (<= 0 y)) (and (<= 0 (band x y)) (<= (band x y) x) (<= (band x y) y))) :pattern ((band x y)))))
(assert (forall ((x Int) (y Int)) (! (=> (and (<= 0 x) (<= 0 y)) (and (<= x (bor x y)) (<= y (bor x y)) (<= (bor x y) (+ x y)))) :pattern ((bor x y)))))
(assert (forall ((x Int)) (! (= (band x 1) (mod x 2)) :pattern ((band x 1)))))
`

// sort of array's element
func arrayElemSort(s string) string {
	// "(Array Int X)"
	if strings.HasPrefix(s, "(Array Int ") {
		return s[len("(Array Int ") : len(s)-1]
	}
	return "Int"
}

func sortedKeys[V any](m map[string]V) []string {
	var ks []string
	for k := range m {
		ks = append(ks, k)
	}
	sort.Strings(ks)
	return ks
}

// constArray: a constant array; for element terms that are not SMT values (Str) a named
// constant with a quantified defining axiom is used instead of (as const ...).
func (so *Sorts) constArray(arrSort string, elem Term) Term {
	if !strings.Contains(elem.S, "sempty") {
		return Term{fmt.Sprintf("((as const %s) %s)", arrSort, elem.S), arrSort}
	}
	name := "zarr_" + sanitize(arrSort)
	if so.zarr == nil {
		so.zarr = map[string]string{}
	}
	if _, ok := so.zarr[name]; !ok {
		so.zarr[name] = fmt.Sprintf("(declare-const %s %s)\n(assert (forall ((k Int)) (! (= (select %s k) %s) :pattern ((select %s k)))))", name, arrSort, name, elem.S, name)
	}
	return Term{name, arrSort}
}

// eidx: position of index i of slice s inside its backing array, as a symbol over the slice offset
func eidx(s, i Term) Term {
	return app("Int", "eidx", app("Int", "s_off", s), i)
}
