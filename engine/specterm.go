package main

// Termination obligations for recursive spec functions: a recursive definition that does not
// decrease a non-negative measure is an inconsistent axiom (f(x) = 1 + f(x)).

import (
	"fmt"
	"go/types"
	"strings"
)

type recCall struct {
	conds []Expr // path condition (conjunction); negated ones wrapped in EUnary{"!"}
	args  []Expr
	binds []Binder
}

func collectRecCalls(name string, e Expr, conds []Expr, binds []Binder, out *[]recCall) {
	switch x := e.(type) {
	case ECall:
		for _, a := range x.Args {
			collectRecCalls(name, a, conds, binds, out)
		}
		if x.Fun == name {
			*out = append(*out, recCall{append([]Expr{}, conds...), x.Args, append([]Binder{}, binds...)})
		}
	case EIte:
		collectRecCalls(name, x.C, conds, binds, out)
		collectRecCalls(name, x.A, append(append([]Expr{}, conds...), x.C), binds, out)
		collectRecCalls(name, x.B, append(append([]Expr{}, conds...), EUnary{"!", x.C}), binds, out)
	case EBinary:
		collectRecCalls(name, x.X, conds, binds, out)
		switch x.Op {
		case "&&", "==>":
			collectRecCalls(name, x.Y, append(append([]Expr{}, conds...), x.X), binds, out)
		case "||":
			collectRecCalls(name, x.Y, append(append([]Expr{}, conds...), EUnary{"!", x.X}), binds, out)
		default:
			collectRecCalls(name, x.Y, conds, binds, out)
		}
	case EUnary:
		collectRecCalls(name, x.X, conds, binds, out)
	case EIndex:
		collectRecCalls(name, x.X, conds, binds, out)
		collectRecCalls(name, x.I, conds, binds, out)
	case ESlice:
		collectRecCalls(name, x.X, conds, binds, out)
		if x.Lo != nil {
			collectRecCalls(name, x.Lo, conds, binds, out)
		}
		if x.Hi != nil {
			collectRecCalls(name, x.Hi, conds, binds, out)
		}
	case EField:
		collectRecCalls(name, x.X, conds, binds, out)
	case EOld:
		collectRecCalls(name, x.X, conds, binds, out)
	case EQuant:
		collectRecCalls(name, x.Body, conds, append(append([]Binder{}, binds...), x.Vars...), out)
	}
}

// specTerminationVCs returns the termination obligations of a recursive spec function.
func (P *Prog) specTerminationVCs(sf *SpecFunc) ([]*VC, error) {
	if sf.Body == nil || sf.Macro {
		return nil, nil
	}
	var calls []recCall
	collectRecCalls(sf.Name, sf.Body, nil, nil, &calls)
	if len(calls) == 0 {
		return nil, nil
	}
	name := "spec:" + sf.Name + "#terminates"
	if sf.Decr == nil {
		return []*VC{{Name: name, Clause: "recursive spec function without a decreases clause", Text: P.header() + "(check-sat)\n", Func: "spec:" + sf.Name}}, nil
	}
	si, err := P.specInfo(sf)
	if err != nil {
		return nil, err
	}
	var vcs []*VC
	for ci, rc := range calls {
		env := &Env{P: P, pkg: si.pkg, bound: map[string]Val{}}
		var decls []string
		for i, b := range sf.Params {
			s := P.sorts.sortOf(si.paramT[i])
			n := "c_" + b.Name
			decls = append(decls, fmt.Sprintf("(declare-const %s %s)", n, s))
			v := Val{T: Term{n, s}, GoT: si.paramT[i]}
			if s == "Slice" {
				es := P.sorts.sortOf(si.paramT[i].Underlying().(*types.Slice).Elem())
				an := n + "_A"
				asort := fmt.Sprintf("(Array Int %s)", es)
				decls = append(decls, fmt.Sprintf("(declare-const %s %s)", an, asort))
				at := Term{an, asort}
				v.Aux = &at
			}
			env.bound[b.Name] = v
		}
		for _, b := range rc.binds {
			t, err := P.resolveType(si.pkg, b.Type)
			if err != nil {
				return nil, err
			}
			s := P.sorts.sortOf(t)
			n := "cq_" + b.Name
			decls = append(decls, fmt.Sprintf("(declare-const %s %s)", n, s))
			env.bound[b.Name] = Val{T: Term{n, s}, GoT: t}
		}
		var body strings.Builder
		// string parameters are Go strings: the global length bound holds for them
		for i, b := range sf.Params {
			if bt, ok := si.paramT[i].Underlying().(*types.Basic); ok && bt.Info()&types.IsString != 0 {
				body.WriteString("(assert " + P.sorts.typeAssume(Term{"c_" + b.Name, "Str"}, si.paramT[i]).S + ")\n")
			}
		}
		for _, c := range rc.conds {
			t, err := env.elabBool(c)
			if err != nil {
				return nil, fmt.Errorf("spec %s termination: %v", sf.Name, err)
			}
			body.WriteString("(assert " + t.S + ")\n")
		}
		m0, err := env.elab(sf.Decr)
		if err != nil {
			return nil, fmt.Errorf("spec %s decreases: %v", sf.Name, err)
		}
		cenv := env.clone()
		for i, b := range sf.Params {
			av, err := env.elab(rc.args[i])
			if err != nil {
				return nil, fmt.Errorf("spec %s termination: %v", sf.Name, err)
			}
			av.GoT = si.paramT[i]
			cenv.bound[b.Name] = av
		}
		m1, err := cenv.elab(sf.Decr)
		if err != nil {
			return nil, err
		}
		goal := and(app("Bool", "<=", Term{"0", "Int"}, m0.T), app("Bool", "<", m1.T, m0.T))
		body.WriteString("(assert (not " + goal.S + "))\n")
		// the function's own defining axiom must not be used: exclude it
		lax, err := P.lemmaAxiomsFor(sf.Uses)
		if err != nil {
			return nil, err
		}
		text := P.assemble(decls, lax, body.String(), map[string]bool{si.sym: true})
		vcs = append(vcs, &VC{Name: fmt.Sprintf("%s.%d", name, ci), Clause: "recursive call decreases the measure", Text: text, Func: "spec:" + sf.Name, Lemma: true})
	}
	return vcs, nil
}
