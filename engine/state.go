package main

// Symbolic state: local cells, heap components, allocation frontier.

import (
	"fmt"
	"go/types"
	"strings"

	"golang.org/x/tools/go/ssa"
)

const (
	locLocal = iota
	locPtr
	locElem
	locGlobal
)

type pathStep struct {
	field int        // >= 0: struct field index; -1: array index
	idx   Term       // for array index
	ct    types.Type // container type (struct or array type)
}

type Loc struct {
	kind  int
	alloc *ssa.Alloc
	base  Term // pointer value or array ref
	idx   Term // element index (locElem)
	rootT types.Type
	path  []pathStep
	gname string
}

type State struct {
	fx     *FnCtx
	locals map[*ssa.Alloc]Term
	heap   map[string]Term
	base   string // prefix for components not in heap map
	next   Term
	iters  map[ssa.Value]Term
}

func (st *State) clone() *State {
	n := &State{fx: st.fx, locals: map[*ssa.Alloc]Term{}, heap: map[string]Term{}, base: st.base, next: st.next, iters: map[ssa.Value]Term{}}
	for k, v := range st.locals {
		n.locals[k] = v
	}
	for k, v := range st.heap {
		n.heap[k] = v
	}
	for k, v := range st.iters {
		n.iters[k] = v
	}
	return n
}

func (st *State) getHeap(P *Prog, comp, sort string) Term {
	if t, ok := st.heap[comp]; ok {
		if t.Sort == "" { // lazily sorted havoc constant
			t.Sort = sort
			if _, seen := st.fx.declared[t.S]; !seen {
				st.fx.declare(t.S, sort)
				st.fx.compWF(t, comp, st.fx.havocNext[t.S])
			}
			st.heap[comp] = t
		}
		if st.fx != nil && st.fx.compSort[comp] == "" {
			st.fx.compSort[comp] = t.Sort
		}
		return t
	}
	name := st.base + "_" + sanitize(comp)
	if st.fx != nil {
		if _, seen := st.fx.declared[name]; !seen {
			st.fx.declare(name, sort)
			nx, ok := st.fx.havocNext[st.base]
			if !ok {
				nx = Term{"next0", "Int"}
			}
			st.fx.compWF(Term{name, sort}, comp, nx)
		}
		st.fx.compSort[comp] = sort
	} else {
		return P.heapInit(comp, sort)
	}
	return Term{name, sort}
}

// compTypes records the Go type stored in each heap component (field, element or pointee type).
var compTypes = map[string]types.Type{}

// compWF: heap closedness for a freshly introduced component constant: every reference, slice and
// interface value stored in it denotes memory allocated before the frontier nx.
func (fx *FnCtx) compWF(h Term, comp string, nx Term) {
	t, ok := compTypes[comp]
	if !ok || nx.S == "" {
		return
	}
	tmp := &State{fx: fx, next: nx}
	if strings.HasPrefix(comp, "E$") {
		es := arrayElemSort(arrayElemSort(h.Sort))
		v := Term{"(select (select " + h.S + " wa) wi)", es}
		body := fx.typeAssume(v, t, tmp)
		if body.S == "true" {
			return
		}
		fx.items = append(fx.items, Item{kind: itAssume, block: -1, t: Term{fmt.Sprintf("(forall ((wa Int) (wi Int)) (! %s :pattern (%s)))", body.S, v.S), "Bool"}})
		return
	}
	if strings.HasPrefix(comp, "F$") || strings.HasPrefix(comp, "P$") {
		es := arrayElemSort(h.Sort)
		v := Term{"(select " + h.S + " wr)", es}
		body := fx.typeAssume(v, t, tmp)
		if body.S == "true" {
			return
		}
		fx.items = append(fx.items, Item{kind: itAssume, block: -1, t: Term{fmt.Sprintf("(forall ((wr Int)) (! %s :pattern (%s)))", body.S, v.S), "Bool"}})
	}
}

func (st *State) setHeap(comp string, t Term) {
	st.heap[comp] = t
	if st.fx != nil {
		st.fx.compSort[comp] = t.Sort
		if !st.fx.freshWrite {
			st.fx.written[comp] = true
		}
	}
}

// ---------- struct layout ----------
// A struct object at address x keeps its non-struct fields in components F$<T>$<field> indexed by x.
// A nested struct field lives at the interior address x + offset(T, field) and is addressed like any other
// struct of its type, so that a pointer to it (&x.Comments) is just that address.  Objects are allocated
// allocStep apart, which keeps interior addresses of different objects distinct.

const allocStep = "1000"

type layout struct {
	offs []int
	size int
}

var layouts = map[string]*layout{}

func structLayout(t types.Type) *layout {
	k := typeKey(t)
	if l, ok := layouts[k]; ok {
		return l
	}
	st := t.Underlying().(*types.Struct)
	l := &layout{}
	layouts[k] = l
	off := 1
	for i := 0; i < st.NumFields(); i++ {
		l.offs = append(l.offs, off)
		if _, ok := st.Field(i).Type().Underlying().(*types.Struct); ok {
			off += structLayout(st.Field(i).Type()).size
		} else {
			off++
		}
	}
	l.size = off
	return l
}

func addOff(base Term, off int) Term {
	if off == 0 {
		return base
	}
	// interior address as an injective symbolic function of (object, offset): no arithmetic needed to separate cells
	return app("Int", "ia", base, intLit(int64(off)))
}

func fieldComp(t types.Type, name string) string {
	c := "F$" + typeKey(t) + "$" + name
	if _, ok := compTypes[c]; !ok {
		if st, ok := t.Underlying().(*types.Struct); ok {
			for i := 0; i < st.NumFields(); i++ {
				if st.Field(i).Name() == name {
					compTypes[c] = st.Field(i).Type()
				}
			}
		}
	}
	return c
}

func elemComp(t types.Type) string {
	c := "E$" + typeKey(t)
	compTypes[c] = t
	return c
}

func ptrComp(t types.Type) string {
	c := "P$" + typeKey(t)
	compTypes[c] = t
	return c
}
func elemSort(P *Prog, t types.Type) string {
	return fmt.Sprintf("(Array Int (Array Int %s))", P.sorts.sortOf(t))
}

// readStructFromHeap composes the struct value of type t located at address p.
func (st *State) readStructFromHeap(P *Prog, p Term, t types.Type) Term {
	stt := t.Underlying().(*types.Struct)
	si := P.sorts.structInfoOf(t)
	if stt.NumFields() == 0 {
		return Term{si.ctor, si.sort}
	}
	lay := structLayout(t)
	var args []Term
	for i := 0; i < stt.NumFields(); i++ {
		f := stt.Field(i)
		if _, ok := f.Type().Underlying().(*types.Struct); ok {
			args = append(args, st.readStructFromHeap(P, addOff(p, lay.offs[i]), f.Type()))
		} else {
			fs := P.sorts.sortOf(f.Type())
			h := st.getHeap(P, fieldComp(t, f.Name()), fmt.Sprintf("(Array Int %s)", fs))
			args = append(args, app(fs, "select", h, p))
		}
	}
	return app(si.sort, si.ctor, args...)
}

func (st *State) writeStructToHeap(P *Prog, p Term, t types.Type, v Term) {
	stt := t.Underlying().(*types.Struct)
	si := P.sorts.structInfoOf(t)
	lay := structLayout(t)
	for i := 0; i < stt.NumFields(); i++ {
		f := stt.Field(i)
		fv := app(si.fsorts[i], si.fields[i], v)
		if _, ok := f.Type().Underlying().(*types.Struct); ok {
			st.writeStructToHeap(P, addOff(p, lay.offs[i]), f.Type(), fv)
		} else {
			comp := fieldComp(t, f.Name())
			hs := fmt.Sprintf("(Array Int %s)", si.fsorts[i])
			h := st.getHeap(P, comp, hs)
			st.setHeap(comp, app(hs, "store", h, p, fv))
		}
	}
}

// applyPathRead reads through value-level path steps
func applyPathRead(P *Prog, v Term, steps []pathStep) Term {
	for _, s := range steps {
		if s.field >= 0 {
			si := P.sorts.structInfoOf(s.ct)
			v = app(si.fsorts[s.field], si.fields[s.field], v)
		} else {
			v = app(arrayElemSort(v.Sort), "select", v, s.idx)
		}
	}
	return v
}

// applyPathWrite returns root value updated at path with nv
func applyPathWrite(P *Prog, root Term, steps []pathStep, nv Term) Term {
	if len(steps) == 0 {
		return nv
	}
	s := steps[0]
	if s.field >= 0 {
		si := P.sorts.structInfoOf(s.ct)
		var args []Term
		for i := range si.fields {
			cur := app(si.fsorts[i], si.fields[i], root)
			if i == s.field {
				cur = applyPathWrite(P, cur, steps[1:], nv)
			}
			args = append(args, cur)
		}
		return app(si.sort, si.ctor, args...)
	}
	cur := app(arrayElemSort(root.Sort), "select", root, s.idx)
	return app(root.Sort, "store", root, s.idx, applyPathWrite(P, cur, steps[1:], nv))
}

// heapWalk follows leading struct-field steps from the struct of type rootT at address base.
// It returns the innermost struct type and its address, the leaf field (or -1 if the path ends at a
// struct), and the remaining value-level steps.
func heapWalk(rootT types.Type, base Term, path []pathStep) (t types.Type, b Term, leaf int, rest []pathStep) {
	t, b = rootT, base
	i := 0
	for i < len(path) {
		stt, ok := t.Underlying().(*types.Struct)
		if !ok || path[i].field < 0 {
			break
		}
		f := stt.Field(path[i].field)
		if _, isStruct := f.Type().Underlying().(*types.Struct); isStruct {
			b = addOff(b, structLayout(t).offs[path[i].field])
			t = f.Type()
			i++
			continue
		}
		return t, b, path[i].field, path[i+1:]
	}
	return t, b, -1, path[i:]
}

func (st *State) read(P *Prog, l *Loc) Term {
	switch l.kind {
	case locLocal:
		v, ok := st.locals[l.alloc]
		if !ok {
			v = P.sorts.zero(l.rootT)
		}
		return applyPathRead(P, v, l.path)
	case locGlobal:
		v := st.getHeap(P, l.gname, P.sorts.sortOf(l.rootT))
		return applyPathRead(P, v, l.path)
	case locElem:
		h := st.getHeap(P, elemComp(l.rootT), elemSort(P, l.rootT))
		es := P.sorts.sortOf(l.rootT)
		v := app(es, "select", app(fmt.Sprintf("(Array Int %s)", es), "select", h, l.base), l.idx)
		return applyPathRead(P, v, l.path)
	case locPtr:
		switch u := l.rootT.Underlying().(type) {
		case *types.Struct:
			t, b, leaf, rest := heapWalk(l.rootT, l.base, l.path)
			var v Term
			if leaf < 0 {
				v = st.readStructFromHeap(P, b, t)
			} else {
				f := t.Underlying().(*types.Struct).Field(leaf)
				fs := P.sorts.sortOf(f.Type())
				h := st.getHeap(P, fieldComp(t, f.Name()), fmt.Sprintf("(Array Int %s)", fs))
				v = app(fs, "select", h, b)
			}
			_ = u
			return applyPathRead(P, v, rest)
		case *types.Array:
			es := P.sorts.sortOf(u.Elem())
			h := st.getHeap(P, elemComp(u.Elem()), elemSort(P, u.Elem()))
			v := app(fmt.Sprintf("(Array Int %s)", es), "select", h, l.base)
			return applyPathRead(P, v, l.path)
		default:
			s := P.sorts.sortOf(l.rootT)
			h := st.getHeap(P, ptrComp(l.rootT), fmt.Sprintf("(Array Int %s)", s))
			return applyPathRead(P, app(s, "select", h, l.base), l.path)
		}
	}
	panic("bad loc")
}

func (st *State) write(P *Prog, l *Loc, nv Term) {
	switch l.kind {
	case locLocal:
		cur, ok := st.locals[l.alloc]
		if !ok {
			cur = P.sorts.zero(l.rootT)
		}
		st.locals[l.alloc] = applyPathWrite(P, cur, l.path, nv)
	case locGlobal:
		cur := st.getHeap(P, l.gname, P.sorts.sortOf(l.rootT))
		st.setHeap(l.gname, applyPathWrite(P, cur, l.path, nv))
	case locElem:
		comp := elemComp(l.rootT)
		hs := elemSort(P, l.rootT)
		h := st.getHeap(P, comp, hs)
		es := P.sorts.sortOf(l.rootT)
		is := fmt.Sprintf("(Array Int %s)", es)
		inner := app(is, "select", h, l.base)
		cur := app(es, "select", inner, l.idx)
		st.setHeap(comp, app(hs, "store", h, l.base, app(is, "store", inner, l.idx, applyPathWrite(P, cur, l.path, nv))))
	case locPtr:
		switch u := l.rootT.Underlying().(type) {
		case *types.Struct:
			t, b, leaf, rest := heapWalk(l.rootT, l.base, l.path)
			if leaf < 0 {
				cur := st.readStructFromHeap(P, b, t)
				st.writeStructToHeap(P, b, t, applyPathWrite(P, cur, rest, nv))
				return
			}
			f := t.Underlying().(*types.Struct).Field(leaf)
			fs := P.sorts.sortOf(f.Type())
			comp := fieldComp(t, f.Name())
			hs := fmt.Sprintf("(Array Int %s)", fs)
			h := st.getHeap(P, comp, hs)
			cur := app(fs, "select", h, b)
			_ = u
			st.setHeap(comp, app(hs, "store", h, b, applyPathWrite(P, cur, rest, nv)))
		case *types.Array:
			es := P.sorts.sortOf(u.Elem())
			comp := elemComp(u.Elem())
			hs := elemSort(P, u.Elem())
			h := st.getHeap(P, comp, hs)
			cur := app(fmt.Sprintf("(Array Int %s)", es), "select", h, l.base)
			st.setHeap(comp, app(hs, "store", h, l.base, applyPathWrite(P, cur, l.path, nv)))
		default:
			s := P.sorts.sortOf(l.rootT)
			comp := ptrComp(l.rootT)
			hs := fmt.Sprintf("(Array Int %s)", s)
			h := st.getHeap(P, comp, hs)
			cur := app(s, "select", h, l.base)
			st.setHeap(comp, app(hs, "store", h, l.base, applyPathWrite(P, cur, l.path, nv)))
		}
	}
}

// components that a write to l touches (static, by type)
func (l *Loc) comps(P *Prog) []string {
	switch l.kind {
	case locLocal:
		return nil
	case locGlobal:
		return []string{l.gname}
	case locElem:
		return []string{elemComp(l.rootT)}
	case locPtr:
		switch u := l.rootT.Underlying().(type) {
		case *types.Struct:
			t, _, leaf, _ := heapWalk(l.rootT, Term{"0", "Int"}, l.path)
			if leaf < 0 {
				return leafComps(t)
			}
			_ = u
			return []string{fieldComp(t, t.Underlying().(*types.Struct).Field(leaf).Name())}
		case *types.Array:
			return []string{elemComp(u.Elem())}
		default:
			return []string{ptrComp(l.rootT)}
		}
	}
	return nil
}

func leafComps(t types.Type) []string {
	stt := t.Underlying().(*types.Struct)
	var r []string
	for i := 0; i < stt.NumFields(); i++ {
		f := stt.Field(i)
		if _, ok := f.Type().Underlying().(*types.Struct); ok {
			r = append(r, leafComps(f.Type())...)
		} else {
			r = append(r, fieldComp(t, f.Name()))
		}
	}
	return r
}

// addrOf: the address denoted by a location that ends at a struct (interior pointer)
func (l *Loc) addrOf() (Term, bool) {
	if l.kind != locPtr {
		return Term{}, false
	}
	if _, ok := l.rootT.Underlying().(*types.Struct); !ok {
		return Term{}, false
	}
	_, b, leaf, rest := heapWalk(l.rootT, l.base, l.path)
	if leaf >= 0 || len(rest) > 0 {
		return Term{}, false
	}
	return b, true
}

// map components
func (st *State) mapVals(P *Prog, m *types.Map, ref Term) Term {
	ks, vs := P.sorts.sortOf(m.Key()), P.sorts.sortOf(m.Elem())
	inner := fmt.Sprintf("(Array %s %s)", ks, vs)
	h := st.getHeap(P, "M$"+typeKey(m), fmt.Sprintf("(Array Int %s)", inner))
	return app(inner, "select", h, ref)
}
func (st *State) mapPresent(P *Prog, m *types.Map, ref Term) Term {
	ks := P.sorts.sortOf(m.Key())
	inner := fmt.Sprintf("(Array %s Bool)", ks)
	h := st.getHeap(P, "MP$"+typeKey(m), fmt.Sprintf("(Array Int %s)", inner))
	return app(inner, "select", h, ref)
}
