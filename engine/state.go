package main

// Symbolic state: local cells, heap components, allocation frontier.

import (
	"fmt"
	"go/types"

	"golang.org/x/tools/go/ssa"
)

const (
	locLocal = iota
	locPtr
	locElem
	locGlobal
)

type pathStep struct {
	field int        // >= 0: struct field index; -1: array index
	idx   Term       // for array index
	ct    types.Type // container type (struct or array type)
}

type Loc struct {
	kind  int
	alloc *ssa.Alloc
	base  Term // pointer value or array ref
	idx   Term // element index (locElem)
	rootT types.Type
	path  []pathStep
	gname string
}

type State struct {
	fx     *FnCtx
	locals map[*ssa.Alloc]Term
	heap   map[string]Term
	base   string // prefix for components not in heap map
	next   Term
	iters  map[ssa.Value]Term
}

func (st *State) clone() *State {
	n := &State{fx: st.fx, locals: map[*ssa.Alloc]Term{}, heap: map[string]Term{}, base: st.base, next: st.next, iters: map[ssa.Value]Term{}}
	for k, v := range st.locals {
		n.locals[k] = v
	}
	for k, v := range st.heap {
		n.heap[k] = v
	}
	for k, v := range st.iters {
		n.iters[k] = v
	}
	return n
}

func (st *State) getHeap(P *Prog, comp, sort string) Term {
	if t, ok := st.heap[comp]; ok {
		if t.Sort == "" { // lazily sorted havoc constant
			t.Sort = sort
			st.fx.declare(t.S, sort)
			st.heap[comp] = t
		}
		return t
	}
	name := st.base + "_" + sanitize(comp)
	if st.fx != nil {
		st.fx.declare(name, sort)
		st.fx.compSort[comp] = sort
	} else {
		return P.heapInit(comp, sort)
	}
	return Term{name, sort}
}

func (st *State) setHeap(comp string, t Term) {
	st.heap[comp] = t
	if st.fx != nil {
		st.fx.compSort[comp] = t.Sort
		if !st.fx.freshWrite {
			st.fx.written[comp] = true
		}
	}
}

// component name of a struct field path starting at named struct type t
func fieldComp(t types.Type, names []string) string {
	s := "F$" + typeKey(t)
	for _, n := range names {
		s += "$" + n
	}
	return s
}

func elemComp(t types.Type) string { return "E$" + typeKey(t) }
func elemSort(P *Prog, t types.Type) string {
	return fmt.Sprintf("(Array Int (Array Int %s))", P.sorts.sortOf(t))
}

// readStructFromHeap composes a struct value located at pointer p (type t, field prefix names).
func (st *State) readStructFromHeap(P *Prog, p Term, root types.Type, names []string, t types.Type) Term {
	stt := t.Underlying().(*types.Struct)
	si := P.sorts.structInfoOf(t)
	if stt.NumFields() == 0 {
		return Term{si.ctor, si.sort}
	}
	var args []Term
	for i := 0; i < stt.NumFields(); i++ {
		f := stt.Field(i)
		ns := append(append([]string{}, names...), f.Name())
		if _, ok := f.Type().Underlying().(*types.Struct); ok {
			args = append(args, st.readStructFromHeap(P, p, root, ns, f.Type()))
		} else {
			fs := P.sorts.sortOf(f.Type())
			h := st.getHeap(P, fieldComp(root, ns), fmt.Sprintf("(Array Int %s)", fs))
			args = append(args, app(fs, "select", h, p))
		}
	}
	return app(si.sort, si.ctor, args...)
}

func (st *State) writeStructToHeap(P *Prog, p Term, root types.Type, names []string, t types.Type, v Term) {
	stt := t.Underlying().(*types.Struct)
	si := P.sorts.structInfoOf(t)
	for i := 0; i < stt.NumFields(); i++ {
		f := stt.Field(i)
		ns := append(append([]string{}, names...), f.Name())
		fv := app(si.fsorts[i], si.fields[i], v)
		if _, ok := f.Type().Underlying().(*types.Struct); ok {
			st.writeStructToHeap(P, p, root, ns, f.Type(), fv)
		} else {
			comp := fieldComp(root, ns)
			hs := fmt.Sprintf("(Array Int %s)", si.fsorts[i])
			h := st.getHeap(P, comp, hs)
			st.setHeap(comp, app(hs, "store", h, p, fv))
		}
	}
}

// applyPathRead reads through value-level path steps
func applyPathRead(P *Prog, v Term, steps []pathStep) Term {
	for _, s := range steps {
		if s.field >= 0 {
			si := P.sorts.structInfoOf(s.ct)
			v = app(si.fsorts[s.field], si.fields[s.field], v)
		} else {
			v = app(arrayElemSort(v.Sort), "select", v, s.idx)
		}
	}
	return v
}

// applyPathWrite returns root value updated at path with nv
func applyPathWrite(P *Prog, root Term, steps []pathStep, nv Term) Term {
	if len(steps) == 0 {
		return nv
	}
	s := steps[0]
	if s.field >= 0 {
		si := P.sorts.structInfoOf(s.ct)
		var args []Term
		for i := range si.fields {
			cur := app(si.fsorts[i], si.fields[i], root)
			if i == s.field {
				cur = applyPathWrite(P, cur, steps[1:], nv)
			}
			args = append(args, cur)
		}
		return app(si.sort, si.ctor, args...)
	}
	cur := app(arrayElemSort(root.Sort), "select", root, s.idx)
	return app(root.Sort, "store", root, s.idx, applyPathWrite(P, cur, steps[1:], nv))
}

// splitHeapPath: for a pointer root of struct type, consume leading struct-field steps.
func splitHeapPath(rootT types.Type, path []pathStep) (names []string, leafT types.Type, rest []pathStep) {
	t := rootT
	i := 0
	for i < len(path) {
		stt, ok := t.Underlying().(*types.Struct)
		if !ok || path[i].field < 0 {
			break
		}
		f := stt.Field(path[i].field)
		names = append(names, f.Name())
		t = f.Type()
		i++
	}
	return names, t, path[i:]
}

func (st *State) read(P *Prog, l *Loc) Term {
	switch l.kind {
	case locLocal:
		v, ok := st.locals[l.alloc]
		if !ok {
			v = P.sorts.zero(l.rootT)
		}
		return applyPathRead(P, v, l.path)
	case locGlobal:
		v := st.getHeap(P, l.gname, P.sorts.sortOf(l.rootT))
		return applyPathRead(P, v, l.path)
	case locElem:
		h := st.getHeap(P, elemComp(l.rootT), elemSort(P, l.rootT))
		es := P.sorts.sortOf(l.rootT)
		v := app(es, "select", app(fmt.Sprintf("(Array Int %s)", es), "select", h, l.base), l.idx)
		return applyPathRead(P, v, l.path)
	case locPtr:
		switch u := l.rootT.Underlying().(type) {
		case *types.Struct:
			names, leafT, rest := splitHeapPath(l.rootT, l.path)
			var v Term
			if _, isStruct := leafT.Underlying().(*types.Struct); isStruct {
				v = st.readStructFromHeap(P, l.base, l.rootT, names, leafT)
			} else {
				fs := P.sorts.sortOf(leafT)
				h := st.getHeap(P, fieldComp(l.rootT, names), fmt.Sprintf("(Array Int %s)", fs))
				v = app(fs, "select", h, l.base)
			}
			return applyPathRead(P, v, rest)
		case *types.Array:
			es := P.sorts.sortOf(u.Elem())
			h := st.getHeap(P, elemComp(u.Elem()), elemSort(P, u.Elem()))
			v := app(fmt.Sprintf("(Array Int %s)", es), "select", h, l.base)
			return applyPathRead(P, v, l.path)
		default:
			s := P.sorts.sortOf(l.rootT)
			h := st.getHeap(P, "P$"+typeKey(l.rootT), fmt.Sprintf("(Array Int %s)", s))
			return applyPathRead(P, app(s, "select", h, l.base), l.path)
		}
	}
	panic("bad loc")
}

func (st *State) write(P *Prog, l *Loc, nv Term) {
	switch l.kind {
	case locLocal:
		cur, ok := st.locals[l.alloc]
		if !ok {
			cur = P.sorts.zero(l.rootT)
		}
		st.locals[l.alloc] = applyPathWrite(P, cur, l.path, nv)
	case locGlobal:
		cur := st.getHeap(P, l.gname, P.sorts.sortOf(l.rootT))
		st.setHeap(l.gname, applyPathWrite(P, cur, l.path, nv))
	case locElem:
		comp := elemComp(l.rootT)
		hs := elemSort(P, l.rootT)
		h := st.getHeap(P, comp, hs)
		es := P.sorts.sortOf(l.rootT)
		is := fmt.Sprintf("(Array Int %s)", es)
		inner := app(is, "select", h, l.base)
		cur := app(es, "select", inner, l.idx)
		st.setHeap(comp, app(hs, "store", h, l.base, app(is, "store", inner, l.idx, applyPathWrite(P, cur, l.path, nv))))
	case locPtr:
		switch u := l.rootT.Underlying().(type) {
		case *types.Struct:
			names, leafT, rest := splitHeapPath(l.rootT, l.path)
			if _, isStruct := leafT.Underlying().(*types.Struct); isStruct {
				cur := st.readStructFromHeap(P, l.base, l.rootT, names, leafT)
				st.writeStructToHeap(P, l.base, l.rootT, names, leafT, applyPathWrite(P, cur, rest, nv))
				return
			}
			fs := P.sorts.sortOf(leafT)
			comp := fieldComp(l.rootT, names)
			hs := fmt.Sprintf("(Array Int %s)", fs)
			h := st.getHeap(P, comp, hs)
			cur := app(fs, "select", h, l.base)
			st.setHeap(comp, app(hs, "store", h, l.base, applyPathWrite(P, cur, rest, nv)))
		case *types.Array:
			es := P.sorts.sortOf(u.Elem())
			comp := elemComp(u.Elem())
			hs := elemSort(P, u.Elem())
			h := st.getHeap(P, comp, hs)
			cur := app(fmt.Sprintf("(Array Int %s)", es), "select", h, l.base)
			st.setHeap(comp, app(hs, "store", h, l.base, applyPathWrite(P, cur, l.path, nv)))
		default:
			s := P.sorts.sortOf(l.rootT)
			comp := "P$" + typeKey(l.rootT)
			hs := fmt.Sprintf("(Array Int %s)", s)
			h := st.getHeap(P, comp, hs)
			cur := app(s, "select", h, l.base)
			st.setHeap(comp, app(hs, "store", h, l.base, applyPathWrite(P, cur, l.path, nv)))
		}
	}
}

// components that a write to l touches (static, by type)
func (l *Loc) comps(P *Prog) []string {
	switch l.kind {
	case locLocal:
		return nil
	case locGlobal:
		return []string{l.gname}
	case locElem:
		return []string{elemComp(l.rootT)}
	case locPtr:
		switch u := l.rootT.Underlying().(type) {
		case *types.Struct:
			names, leafT, _ := splitHeapPath(l.rootT, l.path)
			if _, isStruct := leafT.Underlying().(*types.Struct); isStruct {
				return leafComps(l.rootT, names, leafT)
			}
			return []string{fieldComp(l.rootT, names)}
		case *types.Array:
			return []string{elemComp(u.Elem())}
		default:
			return []string{"P$" + typeKey(l.rootT)}
		}
	}
	return nil
}

func leafComps(root types.Type, names []string, t types.Type) []string {
	stt := t.Underlying().(*types.Struct)
	var r []string
	for i := 0; i < stt.NumFields(); i++ {
		f := stt.Field(i)
		ns := append(append([]string{}, names...), f.Name())
		if _, ok := f.Type().Underlying().(*types.Struct); ok {
			r = append(r, leafComps(root, ns, f.Type())...)
		} else {
			r = append(r, fieldComp(root, ns))
		}
	}
	return r
}

// map components
func (st *State) mapVals(P *Prog, m *types.Map, ref Term) Term {
	ks, vs := P.sorts.sortOf(m.Key()), P.sorts.sortOf(m.Elem())
	inner := fmt.Sprintf("(Array %s %s)", ks, vs)
	h := st.getHeap(P, "M$"+typeKey(m), fmt.Sprintf("(Array Int %s)", inner))
	return app(inner, "select", h, ref)
}
func (st *State) mapPresent(P *Prog, m *types.Map, ref Term) Term {
	ks := P.sorts.sortOf(m.Key())
	inner := fmt.Sprintf("(Array %s Bool)", ks)
	h := st.getHeap(P, "MP$"+typeKey(m), fmt.Sprintf("(Array Int %s)", inner))
	return app(inner, "select", h, ref)
}
