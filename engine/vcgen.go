package main

// VC generation for one function: loops, blocks, obligations.

import (
	"fmt"
	"go/ast"
	"go/token"
	"go/types"
	"sort"
	"strings"

	"golang.org/x/tools/go/ssa"
)

const (
	itAssume = iota
	itOblig
)

type Item struct {
	kind     int
	block    int // block index; -1 = global
	t        Term
	name     string
	clause   string
	props    []string
	known    string
	cover    bool
	coverAll bool // exit cover: keeps the assumptions of every block
}

type loopInfo struct {
	header    *ssa.BasicBlock
	blocks    map[*ssa.BasicBlock]bool
	ord       int
	spec      *LoopSpec
	minPos    token.Pos
	preState  *State
	headSt    *State
	variant   *Term
	bodyPos   token.Pos
	bodyEnd   token.Pos // closing brace of the loop body (names declared directly in the body are visible to invariants)
	rangeIt   ssa.Value
	rangeIdx  *ssa.Alloc
	backEdges int
	// heap components written in the loop that are not in the function's modifies clause: the loop carries the
	// automatic invariant "cells that existed at function entry are unchanged" (checked on entry and on every
	// back edge), so that the semantic frame obligation at the returns can be established across the havoc
	frameComps []string
}


type FnCtx struct {
	allocByPosType map[string]*ssa.Alloc
	aliasCells map[*ssa.Alloc]ssa.Value // local pointer variables that are aliases of an element address (nil: not an alias)
	lateDefers []*ssa.Defer // defers registered outside the entry block (run at the exits their block dominates)
	sentinels  []Term
	P          *Prog
	fn         *ssa.Function
	fc         *FuncContract
	key        string
	declared   map[string]string
	declList   []string
	items      []Item
	vals       map[ssa.Value]Term
	tuples     map[ssa.Value][]Term
	reach      map[*ssa.BasicBlock]Term
	outSt      map[*ssa.BasicBlock]*State
	edgeCond   map[[2]int]Term
	loops      []*loopInfo
	loopOf     map[*ssa.BasicBlock]*loopInfo // header -> loop
	entry      *State
	cur        *State
	curBlock   *ssa.BasicBlock
	compSort   map[string]string
	written    map[string]bool
	counter    map[string]int
	fresh      int
	defers     []*ssa.Defer
	closures   map[ssa.Value]*ssa.MakeClosure
	allocByPos map[token.Pos]*ssa.Alloc
	errs       []string
	notes      map[string]bool // evidence notes (uncontracted callees etc.)
	mode       string
	anc        map[int]map[int]bool
	order      []*ssa.BasicBlock
	paramTerm  map[string]Val
	callCount  map[string]int
	scopePos   token.Pos
	pkgInfo    *types.Info
	modSet     map[string]bool
	callees    map[string]bool
	freshWrite bool
	cellOnly   map[string][]*ssa.FreeVar
	ghosts     map[string]Val
	havocNext  map[string]Term // allocation frontier at the point a havoc constant was introduced
	retStates  []retState
	usedFC     map[*FuncContract]bool
}

type retState struct {
	b  *ssa.BasicBlock
	st *State
}

func freeVarNamed(fn *ssa.Function, name string) *ssa.FreeVar {
	for _, fv := range fn.FreeVars {
		if fv.Name() == name {
			return fv
		}
	}
	return nil
}

func (fx *FnCtx) declare(name, sort string) {
	if _, ok := fx.declared[name]; ok {
		return
	}
	fx.declared[name] = sort
	fx.declList = append(fx.declList, fmt.Sprintf("(declare-const %s %s)", name, sort))
}

func (fx *FnCtx) freshConst(prefix, sort string) Term {
	fx.fresh++
	name := fmt.Sprintf("%s_%d", sanitize(prefix), fx.fresh)
	fx.declare(name, sort)
	return Term{name, sort}
}

func (fx *FnCtx) blockIdx() int {
	if fx.curBlock == nil {
		return -1
	}
	return fx.curBlock.Index
}

func (fx *FnCtx) assume(t Term) {
	if t.S == "true" {
		return
	}
	b := fx.blockIdx()
	if b >= 0 {
		t = implies(fx.reach[fx.curBlock], t)
	}
	fx.items = append(fx.items, Item{kind: itAssume, block: b, t: t})
}

// assumeDef: unguarded definitional fact
func (fx *FnCtx) assumeDef(t Term) {
	if t.S == "true" {
		return
	}
	fx.items = append(fx.items, Item{kind: itAssume, block: fx.blockIdx(), t: t})
}

func (fx *FnCtx) oblig(kind string, t Term, clause string, props []string, known string) {
	n := fx.counter[kind]
	fx.counter[kind] = n + 1
	name := fmt.Sprintf("%s#%s.%d", fx.key, kind, n)
	fx.obligNamed(name, t, clause, props, known)
}

func (fx *FnCtx) obligNamed(name string, t Term, clause string, props []string, known string) {
	b := fx.blockIdx()
	g := t
	if b >= 0 {
		g = implies(fx.reach[fx.curBlock], t)
	}
	if len(props) == 0 {
		props = fx.fc.Props
	}
	fx.items = append(fx.items, Item{kind: itOblig, block: b, t: g, name: name, clause: clause, props: props, known: known})
}

func (fx *FnCtx) errf(f string, a ...interface{}) {
	fx.errs = append(fx.errs, fmt.Sprintf(f, a...))
}

// ---------- loops ----------

func (fx *FnCtx) findLoops() {
	fn := fx.fn
	fx.loopOf = map[*ssa.BasicBlock]*loopInfo{}
	for _, b := range fn.Blocks {
		for _, s := range b.Succs {
			if s.Dominates(b) { // back edge b -> s
				li := fx.loopOf[s]
				if li == nil {
					li = &loopInfo{header: s, blocks: map[*ssa.BasicBlock]bool{s: true}}
					fx.loopOf[s] = li
					fx.loops = append(fx.loops, li)
				}
				// collect body: nodes reaching b without passing s
				var stack []*ssa.BasicBlock
				if !li.blocks[b] {
					li.blocks[b] = true
					stack = append(stack, b)
				}
				for len(stack) > 0 {
					x := stack[len(stack)-1]
					stack = stack[:len(stack)-1]
					for _, p := range x.Preds {
						if !li.blocks[p] {
							li.blocks[p] = true
							stack = append(stack, p)
						}
					}
				}
			}
		}
	}
	for _, li := range fx.loops {
		li.minPos = token.NoPos
		for b := range li.blocks {
			for _, in := range b.Instrs {
				if p := in.Pos(); p.IsValid() && (li.minPos == token.NoPos || p < li.minPos) {
					li.minPos = p
				}
				if d, ok := in.(*ssa.DebugRef); ok {
					if p := d.Expr.Pos(); p.IsValid() && (li.minPos == token.NoPos || p < li.minPos) {
						li.minPos = p
					}
				}
			}
		}
	}
	sort.SliceStable(fx.loops, func(i, j int) bool {
		a, b := fx.loops[i], fx.loops[j]
		// outer loops (supersets) first, else by position
		if a.blocks[b.header] && !b.blocks[a.header] {
			return true
		}
		if b.blocks[a.header] && !a.blocks[b.header] {
			return false
		}
		if a.minPos != b.minPos {
			return a.minPos < b.minPos
		}
		return a.header.Index < b.header.Index
	})
	// map to AST loops for scope positions
	var astLoops []ast.Node
	if syn := fn.Syntax(); syn != nil {
		var body *ast.BlockStmt
		switch s := syn.(type) {
		case *ast.FuncDecl:
			body = s.Body
		case *ast.FuncLit:
			body = s.Body
		}
		if body != nil {
			ast.Inspect(body, func(n ast.Node) bool {
				switch n.(type) {
				case *ast.FuncLit:
					return false
				case *ast.ForStmt, *ast.RangeStmt:
					astLoops = append(astLoops, n)
				}
				return true
			})
		}
	}
	for i, li := range fx.loops {
		li.ord = i
		if fx.fc != nil {
			li.spec = fx.fc.Loops[i]
		}
		// best matching AST loop: the last AST loop starting at or before minPos... use containment
		var best ast.Node
		for _, al := range astLoops {
			if al.Pos() <= li.minPos && li.minPos < al.End() {
				best = al // innermost containing wins (later in preorder)
			}
		}
		if best != nil {
			switch s := best.(type) {
			case *ast.ForStmt:
				li.bodyPos = s.Body.Lbrace + 1
				li.bodyEnd = s.Body.Rbrace
			case *ast.RangeStmt:
				li.bodyPos = s.Body.Lbrace + 1
				li.bodyEnd = s.Body.Rbrace
			}
		}
		// range iterator / index
		for b := range li.blocks {
			for _, in := range b.Instrs {
				if nx, ok := in.(*ssa.Next); ok {
					if fx.innermost(b) == li {
						li.rangeIt = nx.Iter
					}
				}
				if st, ok := in.(*ssa.Store); ok {
					// the range index is incremented in the loop header itself
					if a, ok := st.Addr.(*ssa.Alloc); ok && a.Comment == "rangeindex" && b == li.header {
						li.rangeIdx = a
					}
				}
			}
		}
	}
	if fx.fc != nil {
		for ord := range fx.fc.Loops {
			if ord >= len(fx.loops) {
				fx.errf("binding failure: contract names loop %d but %s has %d loops", ord, fx.key, len(fx.loops))
			}
		}
	}
}

func (fx *FnCtx) innermost(b *ssa.BasicBlock) *loopInfo {
	var best *loopInfo
	for _, li := range fx.loops {
		if li.blocks[b] && (best == nil || len(li.blocks) < len(best.blocks)) {
			best = li
		}
	}
	return best
}

func (fx *FnCtx) isBackEdge(from, to *ssa.BasicBlock) bool {
	li := fx.loopOf[to]
	return li != nil && li.blocks[from] && to.Dominates(from)
}

func (fx *FnCtx) topoOrder() {
	fn := fx.fn
	visited := map[*ssa.BasicBlock]bool{}
	var post []*ssa.BasicBlock
	var dfs func(b *ssa.BasicBlock)
	dfs = func(b *ssa.BasicBlock) {
		visited[b] = true
		for _, s := range b.Succs {
			if fx.isBackEdge(b, s) || visited[s] {
				continue
			}
			dfs(s)
		}
		post = append(post, b)
	}
	dfs(fn.Blocks[0])
	if fn.Recover != nil && !visited[fn.Recover] {
		// recover block: not analysed (only reachable via panic recovery)
	}
	for i := len(post) - 1; i >= 0; i-- {
		fx.order = append(fx.order, post[i])
	}
	// ancestors in the cut DAG
	fx.anc = map[int]map[int]bool{}
	for _, b := range fx.order {
		a := map[int]bool{}
		for _, p := range b.Preds {
			if fx.isBackEdge(p, b) {
				continue
			}
			if pa, ok := fx.anc[p.Index]; ok {
				a[p.Index] = true
				for k := range pa {
					a[k] = true
				}
			}
		}
		fx.anc[b.Index] = a
	}
}

// ---------- static write sets (for loop havoc) ----------

func (fx *FnCtx) instrWrites(in ssa.Instruction, locals map[*ssa.Alloc]bool, comps map[string]bool, all *bool, allocs *bool, iters map[ssa.Value]bool) {
	switch x := in.(type) {
	case *ssa.Store:
		fx.addrWrites(x.Addr, locals, comps)
	case *ssa.Alloc:
		if x.Heap {
			*allocs = true
		} else {
			locals[x] = true
		}
	case *ssa.MapUpdate:
		mt := x.Map.Type().Underlying().(*types.Map)
		comps["M$"+typeKey(mt)] = true
		comps["MP$"+typeKey(mt)] = true
		comps["ML$"+typeKey(mt)] = true
	case *ssa.MakeSlice, *ssa.MakeMap, *ssa.MakeClosure, *ssa.MakeInterface:
		*allocs = true
	case *ssa.Next:
		iters[x.Iter] = true
	case *ssa.Range:
		iters[x] = true
	case *ssa.Convert:
		if _, ok := x.Type().Underlying().(*types.Slice); ok {
			*allocs = true
			comps[elemComp(x.Type().Underlying().(*types.Slice).Elem())] = true
		}
	case *ssa.Call:
		fx.callWrites(&x.Call, locals, comps, all, allocs)
	case *ssa.Defer:
	case *ssa.RunDefers:
		for _, d := range fx.defers {
			fx.callWrites(&d.Call, locals, comps, all, allocs)
		}
	}
}

func (fx *FnCtx) addrWrites(addr ssa.Value, locals map[*ssa.Alloc]bool, comps map[string]bool) {
	l := fx.staticLoc(addr)
	if l == nil {
		return
	}
	if l.kind == locLocal {
		locals[l.alloc] = true
		return
	}
	for _, c := range l.comps(fx.P) {
		comps[c] = true
	}
}

func (fx *FnCtx) callWrites(c *ssa.CallCommon, locals map[*ssa.Alloc]bool, comps map[string]bool, all *bool, allocs *bool) {
	if b, ok := c.Value.(*ssa.Builtin); ok {
		switch b.Name() {
		case "append":
			*allocs = true
			st := c.Args[0].Type().Underlying().(*types.Slice)
			comps[elemComp(st.Elem())] = true
		case "copy":
			st := c.Args[0].Type().Underlying().(*types.Slice)
			comps[elemComp(st.Elem())] = true
		case "delete":
			mt := c.Args[0].Type().Underlying().(*types.Map)
			comps["MP$"+typeKey(mt)] = true
			comps["ML$"+typeKey(mt)] = true
		}
		return
	}
	fc, callee, _ := fx.calleeContract(c)
	if fc == nil {
		*all = true
		*allocs = true
		return
	}
	*allocs = true
	if fc.ModAll {
		*all = true
	}
	var pkg *types.Package
	if callee != nil && callee.Pkg != nil {
		pkg = callee.Pkg.Pkg
	}
	for _, m := range fc.Modifies {
		if callee != nil {
			if fv := freeVarNamed(callee, m); fv != nil {
				if mt, isMap := deref(fv.Type()).Underlying().(*types.Map); isMap {
					k := typeKey(mt)
					comps["M$"+k], comps["MP$"+k], comps["ML$"+k] = true, true, true
					continue
				}
				if _, isStruct := deref(fv.Type()).Underlying().(*types.Struct); isStruct {
					for _, c := range leafComps(deref(fv.Type())) {
						comps[c] = true
					}
				} else {
					comps[ptrComp(deref(fv.Type()))] = true
				}
				continue
			}
		}
		cs, err := fx.P.modComps(pkg, m)
		if err != nil {
			fx.errf("contract of %s: %v", fc.Key, err)
			continue
		}
		for _, cn := range cs {
			comps[cn] = true
		}
	}
	// closures write captured locals through pointers: handled as P$ comps (captured vars are heap allocs)
}

// modComps maps a modifies item to component names
func (P *Prog) modComps(pkg *types.Package, m string) ([]string, error) {
	switch {
	case strings.HasPrefix(m, "[]"):
		t, err := P.resolveType(pkg, m[2:])
		if err != nil {
			return nil, err
		}
		return []string{elemComp(t)}, nil
	case strings.HasPrefix(m, "*"):
		t, err := P.resolveType(pkg, m[1:])
		if err != nil {
			return nil, err
		}
		if _, ok := t.Underlying().(*types.Struct); ok {
			return leafComps(t), nil
		}
		return []string{ptrComp(t)}, nil
	case strings.HasPrefix(m, "type:"):
		// quoted type text: a map type (its contents) or a slice type (its elements)
		t, err := P.resolveType(pkg, m[5:])
		if err != nil {
			return nil, err
		}
		switch u := t.Underlying().(type) {
		case *types.Map:
			k := typeKey(u)
			return []string{"M$" + k, "MP$" + k, "ML$" + k}, nil
		case *types.Slice:
			return []string{elemComp(u.Elem())}, nil
		}
		return nil, fmt.Errorf("modifies %q: not a map or slice type", m[5:])
	case strings.HasPrefix(m, "ghost."):
		return []string{"X$" + m[6:]}, nil
	case strings.HasPrefix(m, "G."):
		return []string{"G$" + pkg.Name() + "." + m[2:]}, nil
	case strings.HasPrefix(m, "map."):
		// map.<TypeName> where TypeName is a named map type or a registered alias
		t, err := P.resolveType(pkg, m[4:])
		if err != nil {
			return nil, err
		}
		k := typeKey(t.Underlying())
		return []string{"M$" + k, "MP$" + k, "ML$" + k}, nil
	}
	parts := strings.Split(m, ".")
	// [pkg.]Type.field[.field]
	for n := 1; n <= 2 && n < len(parts); n++ {
		t, err := P.resolveType(pkg, strings.Join(parts[:n], "."))
		if err != nil {
			continue
		}
		if _, ok := t.Underlying().(*types.Struct); !ok {
			continue
		}
		// resolve remaining as field path; if ends at a struct, all leaves
		cur := t
		owner := t
		names := parts[n:]
		for _, fnm := range names {
			owner = cur
			st, ok := cur.Underlying().(*types.Struct)
			if !ok {
				return nil, fmt.Errorf("modifies %s: %s is not a struct", m, cur)
			}
			found := false
			for i := 0; i < st.NumFields(); i++ {
				if st.Field(i).Name() == fnm {
					cur = st.Field(i).Type()
					found = true
				}
			}
			if !found {
				return nil, fmt.Errorf("modifies %s: no field %s", m, fnm)
			}
		}
		if _, ok := cur.Underlying().(*types.Struct); ok {
			return leafComps(cur), nil
		}
		return []string{fieldComp(owner, names[len(names)-1])}, nil
	}
	return nil, fmt.Errorf("cannot resolve modifies item %q", m)
}

// staticLoc resolves an address without terms (for write-set scans)
func (fx *FnCtx) staticLoc(addr ssa.Value) *Loc {
	switch a := addr.(type) {
	case *ssa.Alloc:
		if !a.Heap {
			return &Loc{kind: locLocal, alloc: a, rootT: deref(a.Type())}
		}
		return &Loc{kind: locPtr, rootT: deref(a.Type())}
	case *ssa.Global:
		return &Loc{kind: locGlobal, gname: "G$" + a.Pkg.Pkg.Name() + "." + a.Name(), rootT: deref(a.Type())}
	case *ssa.FieldAddr:
		in := fx.staticLoc(a.X)
		if in == nil {
			return nil
		}
		ct := deref(a.X.Type())
		n := *in
		n.path = append(append([]pathStep{}, in.path...), pathStep{field: a.Field, ct: ct})
		return &n
	case *ssa.IndexAddr:
		switch u := a.X.Type().Underlying().(type) {
		case *types.Slice:
			return &Loc{kind: locElem, rootT: u.Elem()}
		case *types.Pointer:
			in := fx.staticLoc(a.X)
			if in == nil {
				return nil
			}
			n := *in
			n.path = append(append([]pathStep{}, in.path...), pathStep{field: -1, ct: u.Elem()})
			return &n
		}
	}
	return &Loc{kind: locPtr, rootT: deref(addr.Type())}
}

func deref(t types.Type) types.Type {
	if p, ok := t.Underlying().(*types.Pointer); ok {
		return p.Elem()
	}
	return t
}

// ---------- main driver ----------

func newFnCtx(P *Prog, fn *ssa.Function, fc *FuncContract) *FnCtx {
	fx := &FnCtx{P: P, fn: fn, fc: fc, key: fn.Pkg.Pkg.Name() + "." + fnKey(fn), declared: map[string]string{}, vals: map[ssa.Value]Term{},
		tuples: map[ssa.Value][]Term{}, reach: map[*ssa.BasicBlock]Term{}, outSt: map[*ssa.BasicBlock]*State{}, edgeCond: map[[2]int]Term{},
		compSort: map[string]string{}, written: map[string]bool{}, counter: map[string]int{}, closures: map[ssa.Value]*ssa.MakeClosure{},
		aliasCells: map[*ssa.Alloc]ssa.Value{}, allocByPosType: map[string]*ssa.Alloc{}, allocByPos: map[token.Pos]*ssa.Alloc{}, notes: map[string]bool{}, paramTerm: map[string]Val{}, callCount: map[string]int{}, callees: map[string]bool{}, cellOnly: map[string][]*ssa.FreeVar{}, ghosts: map[string]Val{}, havocNext: map[string]Term{}, usedFC: map[*FuncContract]bool{}}
	fx.mode = "int"
	if fc.Mode != "" {
		fx.mode = fc.Mode
	}
	return fx
}

func (fx *FnCtx) generate() {
	fn := fx.fn
	P := fx.P
	top := fn
	for top.Parent() != nil {
		top = top.Parent()
	}
	P.curTop = top
	defer func() { P.curTop = nil }()
	if len(fn.Blocks) == 0 {
		fx.errf("function %s has no body", fx.key)
		return
	}
	for _, pk := range P.pkgs {
		if pk.Types == fn.Pkg.Pkg {
			fx.pkgInfo = pk.TypesInfo
		}
	}
	// modifies set
	fx.modSet = map[string]bool{}
	for _, m := range fx.fc.Modifies {
		if fv := freeVarNamed(fn, m); fv != nil {
			// cell-level: only the captured variable itself may be written through this component
			if mt, isMap := deref(fv.Type()).Underlying().(*types.Map); isMap {
				// a captured map: its contents may be updated
				k := typeKey(mt)
				fx.modSet["M$"+k], fx.modSet["MP$"+k], fx.modSet["ML$"+k] = true, true, true
				continue
			}
			if _, isStruct := deref(fv.Type()).Underlying().(*types.Struct); isStruct {
				for _, c := range leafComps(deref(fv.Type())) {
					fx.modSet[c] = true
					fx.cellOnly[c] = append(fx.cellOnly[c], fv)
				}
				continue
			}
			c := ptrComp(deref(fv.Type()))
			fx.modSet[c] = true
			fx.cellOnly[c] = append(fx.cellOnly[c], fv)
			continue
		}
		cs, err := P.modComps(fn.Pkg.Pkg, m)
		if err != nil {
			fx.errf("contract of %s: %v", fx.key, err)
			continue
		}
		for _, c := range cs {
			fx.modSet[c] = true
		}
	}
	for _, b := range fn.Blocks {
		for _, in := range b.Instrs {
			if a, ok := in.(*ssa.Alloc); ok && a.Pos().IsValid() {
				fx.allocByPos[a.Pos()] = a
				// the variables of a type switch's clauses share one position: keep them apart by type
				fx.allocByPosType[fmt.Sprintf("%d|%s", a.Pos(), deref(a.Type()).String())] = a
			}
			if d, ok := in.(*ssa.Defer); ok {
				if b.Index != 0 {
					// a defer registered outside the entry block runs at exactly those function exits that its
					// block dominates (checked where the defers are run); registration inside a loop, or an exit
					// that is reachable from the registration without being dominated by it, is outside the subset
					fx.lateDefers = append(fx.lateDefers, d)
					continue
				}
				fx.defers = append(fx.defers, d)
			}
			if mc, ok := in.(*ssa.MakeClosure); ok {
				fx.closures[mc] = mc
			}
			switch in.(type) {
			case *ssa.Go, *ssa.Select, *ssa.Send, *ssa.MakeChan:
				fx.errf("outside subset: %T in %s", in, fx.key)
			}
		}
	}
	fx.findLoops()
	fx.topoOrder()
	if syn := fn.Syntax(); syn != nil {
		switch s := syn.(type) {
		case *ast.FuncDecl:
			if s.Body != nil {
				fx.scopePos = s.Body.Rbrace
			}
		case *ast.FuncLit:
			fx.scopePos = s.Body.Rbrace
		}
	}
	// initial state
	st := &State{fx: fx, locals: map[*ssa.Alloc]Term{}, heap: map[string]Term{}, base: "H0", iters: map[ssa.Value]Term{}}
	fx.declare("next0", "Int")
	st.next = Term{"next0", "Int"}
	fx.assumeDef(app("Bool", "<", Term{"0", "Int"}, st.next))
	fx.cur = st
	for _, p := range fn.Params {
		name := "p_" + sanitize(p.Name())
		sort := P.sorts.sortOf(p.Type())
		fx.declare(name, sort)
		t := Term{name, sort}
		fx.vals[p] = t
		fx.paramTerm[p.Name()] = Val{T: t, GoT: p.Type()}
		fx.assumeDef(fx.typeAssume(t, p.Type(), st))
	}
	for _, fv := range fn.FreeVars {
		name := "fv_" + sanitize(fv.Name())
		fx.declare(name, "Int")
		t := Term{name, "Int"}
		fx.vals[fv] = t
		fx.assumeDef(and(app("Bool", "<", Term{"0", "Int"}, t), app("Bool", "<", t, st.next)))
	}
	// distinct free variables (distinct captured variables)
	for i := 0; i < len(fn.FreeVars); i++ {
		for j := i + 1; j < len(fn.FreeVars); j++ {
			if types.Identical(fn.FreeVars[i].Type(), fn.FreeVars[j].Type()) {
				fx.assumeDef(not(eq(fx.vals[fn.FreeVars[i]], fx.vals[fn.FreeVars[j]])))
			}
		}
	}
	// entry state snapshot: params spilled into their allocs
	entry := st.clone()
	for _, in := range fn.Blocks[0].Instrs {
		if s, ok := in.(*ssa.Store); ok {
			if a, ok := s.Addr.(*ssa.Alloc); ok && !a.Heap {
				if p, ok := s.Val.(*ssa.Parameter); ok {
					entry.locals[a] = fx.vals[p]
				}
			}
		}
	}
	fx.entry = entry
	fx.globalInitFacts()
	// global facts
	for _, g := range P.globals {
		if g.Pkg != fn.Pkg.Pkg.Path() {
			continue
		}
		env := fx.env(entry)
		env.fx = nil
		t, err := env.elabBool(g.E)
		if err != nil {
			fx.errf("global %s: %v", g.Name, err)
			continue
		}
		fx.assumeDef(t)
	}
	// requires
	for i, c := range fx.fc.Requires {
		env := fx.env(entry)
		t, err := env.elabBool(c.E)
		if err != nil {
			fx.errf("binding failure: %s requires %d (%s): %v", fx.key, i, c.Text, err)
			continue
		}
		fx.assumeDef(t)
		if c.Assumed != "" {
			fx.notes[fmt.Sprintf("ASSUMED on entry to %s, not checked at its call sites: %s (%s)", fx.key, c.Text, c.Assumed)] = true
		}
	}
	// hints: terms over entry values that the solver should see (seeds for E-matching); an uninterpreted
	// predicate applied to the term is assumed, which constrains nothing
	for _, h := range fx.fc.Hints {
		env := fx.env(entry)
		v, err := env.elab(h)
		if err != nil {
			fx.errf("binding failure: %s hint: %v", fx.key, err)
			continue
		}
		if hf := map[string]string{"Int": "hintI", "Str": "hintS", "Bool": "hintB"}[v.T.Sort]; hf != "" {
			fx.assume(Term{"(" + hf + " " + v.T.S + ")", "Bool"})
		}
	}
	fx.items = append(fx.items, Item{kind: itOblig, block: -1, t: tFalse, name: "cover:" + fx.key, clause: "precondition, prelude and used axioms are satisfiable", cover: true, props: fx.fc.Props})

	for _, b := range fx.order {
		fx.processBlock(b)
	}
	// frame: syntactic
	if !fx.fc.ModAll {
		var missing []string
		for c := range fx.written {
			if !fx.modSet[c] && !strings.HasPrefix(c, "P$local:") {
				missing = append(missing, c)
			}
		}
		sort.Strings(missing)
		semantic := len(missing) > 0 && fx.fc.Kind == "func"
		for _, c := range missing {
			if c == "*" || fx.compSort[c] == "" || !strings.HasPrefix(fx.compSort[c], "(Array Int ") {
				semantic = false
			}
		}
		if semantic {
			// the components are written, but possibly only inside objects allocated by this invocation:
			// prove that every cell that existed at entry is unchanged at each return
			for ri, rs := range fx.retStates {
				for _, c := range missing {
					sortc := fx.compSort[c]
					h0 := fx.entry.getHeap(fx.P, c, sortc)
					h1 := rs.st.getHeap(fx.P, c, sortc)
					fx.curBlock = rs.b
					goal := Term{fmt.Sprintf("(forall ((fr Int)) (! (=> (< fr next0) (= (select %s fr) (select %s fr))) :pattern ((select %s fr))))", h1.S, h0.S, h1.S), "Bool"}
					fx.obligNamed(fmt.Sprintf("%s#frame.%s@r%d", fx.key, sanitize(c), ri), goal, "cells of "+c+" that existed at entry are unchanged (component not in modifies)", nil, "")
				}
			}
			fx.curBlock = nil
		} else if len(missing) > 0 && fx.fc.Kind == "func" {
			fx.curBlock = nil
			fx.obligNamed(fx.key+"#frame", tFalse, "function writes heap components not in its modifies clause: "+strings.Join(missing, ", "), nil, "")
		} else if fx.fc.Kind == "func" && (len(fx.fc.Modifies) > 0 || fx.fc.Pure) {
			fx.curBlock = nil
			fx.obligNamed(fx.key+"#frame", tTrue, "all heap components written are listed in modifies (syntactic)", nil, "")
		}
	}
	// exit cover: with every assumption made along the way (callee postconditions, pure-function axioms,
	// invariants, no-overflow assumptions) some return must remain reachable; otherwise every obligation
	// downstream of the contradiction would be discharged vacuously
	if len(fx.retStates) > 0 {
		var rs []Term
		seen := map[*ssa.BasicBlock]bool{}
		for _, r := range fx.retStates {
			if !seen[r.b] {
				seen[r.b] = true
				rs = append(rs, fx.reach[r.b])
			}
		}
		fx.items = append(fx.items, Item{kind: itOblig, block: -1, t: not(or(rs...)), name: "cover.exit:" + fx.key, clause: "some return is reachable under all assumptions made in the body", cover: true, coverAll: true, props: fx.fc.Props})
	}
}

func (fx *FnCtx) env(st *State) *Env {
	return &Env{P: fx.P, fx: fx, st: st, old: fx.entry, bound: map[string]Val{}, pos: fx.scopePos, pkg: fx.fn.Pkg.Pkg}
}

// typeAssume with allocation frontier
func (fx *FnCtx) typeAssume(v Term, t types.Type, st *State) Term {
	base := fx.P.sorts.typeAssume(v, t)
	switch u := t.Underlying().(type) {
	case *types.Pointer:
		r := and(base, app("Bool", "<", v, st.next))
		if stt, ok := u.Elem().Underlying().(*types.Struct); ok && !fx.P.embeddable(u.Elem()) && stt.NumFields() > 0 {
			// pointers to structs that are never embedded by value denote whole objects:
			// aligned to the allocation step and carrying their struct type
			r = and(r, eq(app("Int", "iaoff", v), Term{"0", "Int"}),
				implies(not(eq(v, Term{"0", "Int"})), eq(app("Int", "objtype", v), intLit(int64(fx.P.sorts.typeID(u.Elem()))))))
		}
		return r
	case *types.Map, *types.Signature:
		return and(base, app("Bool", "<", v, st.next))
	case *types.Slice:
		return and(base, app("Bool", "<", app("Int", "s_arr", v), st.next))
	case *types.Interface:
		return and(app("Bool", "<=", Term{"0", "Int"}, app("Int", "i_val", v)), app("Bool", "<", app("Int", "i_val", v), st.next),
			app("Bool", "<=", Term{"0", "Int"}, app("Int", "i_typ", v)),
			implies(eq(app("Int", "i_typ", v), Term{"0", "Int"}), eq(app("Int", "i_val", v), Term{"0", "Int"})))
	case *types.Struct:
		si := fx.P.sorts.structInfoOf(t)
		var cs []Term
		for i := 0; i < u.NumFields(); i++ {
			cs = append(cs, fx.typeAssume(app(si.fsorts[i], si.fields[i], v), u.Field(i).Type(), st))
		}
		return and(cs...)
	}
	return base
}

func (fx *FnCtx) processBlock(b *ssa.BasicBlock) {
	P := fx.P
	fx.curBlock = nil
	// reach + in-state
	var st *State
	li := fx.loopOf[b]
	var preds []*ssa.BasicBlock
	for _, p := range b.Preds {
		if fx.isBackEdge(p, b) {
			continue
		}
		if _, ok := fx.outSt[p]; !ok {
			continue // unreachable pred (e.g. recover)
		}
		preds = append(preds, p)
	}
	rname := fmt.Sprintf("R_%d", b.Index)
	fx.declare(rname, "Bool")
	R := Term{rname, "Bool"}
	fx.reach[b] = R
	if b.Index == 0 {
		fx.assumeDef(R)
		st = fx.cur
	} else {
		var conds []Term
		for _, p := range preds {
			conds = append(conds, and(fx.reach[p], fx.edgeCond[[2]int{p.Index, b.Index}]))
		}
		fx.curBlock = nil
		fx.items = append(fx.items, Item{kind: itAssume, block: b.Index, t: eq(R, or(conds...))})
		st = fx.mergeStates(b, preds, conds)
	}
	fx.curBlock = b
	if li != nil {
		fx.snapshotsBefore(li, st)
		st = fx.enterLoop(li, st, preds)
	}
	fx.cur = st
	fx.snapshots(b, preds, st)
	for _, in := range b.Instrs {
		fx.instr(in)
	}
	fx.outSt[b] = fx.cur
	// back edges out of b
	for i, s := range b.Succs {
		if fx.isBackEdge(b, s) {
			fx.checkBackEdge(fx.loopOf[s], b, i)
		}
	}
	_ = P
}

// snapshotsBefore: ghost "let X = e @before loop k" values, defined on entry to loop k
func (fx *FnCtx) snapshotsBefore(li *loopInfo, st *State) {
	for _, ls := range fx.fc.Lets {
		if !ls.Before || ls.Loop != li.ord {
			continue
		}
		env := fx.env(st)
		if li.bodyPos.IsValid() {
			env.pos = li.bodyPos
		}
		v, err := env.elab(ls.E)
		if err != nil {
			fx.errf("binding failure: let %s in %s: %v", ls.Name, fx.key, err)
			continue
		}
		name := "ghost_" + sanitize(ls.Name)
		fx.declare(name, v.T.Sort)
		g := Val{T: Term{name, v.T.Sort}, GoT: v.GoT}
		fx.ghosts[ls.Name] = g
		fx.assume(eq(g.T, v.T))
	}
}

// snapshots: ghost "let X = e @after loop k" values, defined where control leaves loop k
func (fx *FnCtx) snapshots(b *ssa.BasicBlock, preds []*ssa.BasicBlock, st *State) {
	for _, ls := range fx.fc.Lets {
		if ls.Before {
			continue
		}
		if ls.Loop >= len(fx.loops) {
			fx.errf("binding failure: let %s names loop %d but %s has %d loops", ls.Name, ls.Loop, fx.key, len(fx.loops))
			continue
		}
		li := fx.loops[ls.Loop]
		if li.blocks[b] {
			continue
		}
		fromLoop := false
		for _, p := range preds {
			if li.blocks[p] {
				fromLoop = true
			}
		}
		if !fromLoop {
			continue
		}
		env := fx.env(st)
		if li.bodyPos.IsValid() {
			env.pos = li.bodyPos
		}
		v, err := env.elab(ls.E)
		if err != nil {
			fx.errf("binding failure: let %s in %s: %v", ls.Name, fx.key, err)
			continue
		}
		g, ok := fx.ghosts[ls.Name]
		if !ok {
			name := "ghost_" + sanitize(ls.Name)
			fx.declare(name, v.T.Sort)
			g = Val{T: Term{name, v.T.Sort}, GoT: v.GoT}
			fx.ghosts[ls.Name] = g
		}
		fx.assume(eq(g.T, v.T))
	}
}

func (fx *FnCtx) mergeStates(b *ssa.BasicBlock, preds []*ssa.BasicBlock, conds []Term) *State {
	if len(preds) == 0 {
		// unreachable block
		return &State{fx: fx, locals: map[*ssa.Alloc]Term{}, heap: map[string]Term{}, base: "H0", next: Term{"next0", "Int"}, iters: map[ssa.Value]Term{}}
	}
	if len(preds) == 1 {
		return fx.outSt[preds[0]].clone()
	}
	st := fx.outSt[preds[0]].clone()
	merge := func(name string, vals []Term, sort string) Term {
		same := true
		for _, v := range vals[1:] {
			if v.S != vals[0].S {
				same = false
			}
		}
		if same {
			return vals[0]
		}
		r := vals[len(vals)-1]
		for i := len(vals) - 2; i >= 0; i-- {
			r = ite(conds[i], vals[i], r)
		}
		c := fx.freshConst(fmt.Sprintf("m%d_%s", b.Index, name), sort)
		fx.items = append(fx.items, Item{kind: itAssume, block: b.Index, t: eq(c, r)})
		return c
	}
	// locals
	allLoc := map[*ssa.Alloc]bool{}
	for _, p := range preds {
		for a := range fx.outSt[p].locals {
			allLoc[a] = true
		}
	}
	var las []*ssa.Alloc
	for a := range allLoc {
		las = append(las, a)
	}
	sort.Slice(las, func(i, j int) bool { return las[i].Name() < las[j].Name() })
	for _, a := range las {
		var vs []Term
		for _, p := range preds {
			v, ok := fx.outSt[p].locals[a]
			if !ok {
				v = fx.P.sorts.zero(deref(a.Type()))
			}
			vs = append(vs, v)
		}
		st.locals[a] = merge("l_"+a.Comment, vs, vs[0].Sort)
	}
	// heap: bases must agree, else materialise
	allComp := map[string]bool{}
	baseSame := true
	for _, p := range preds {
		for c := range fx.outSt[p].heap {
			allComp[c] = true
		}
		if fx.outSt[p].base != st.base {
			baseSame = false
		}
	}
	if !baseSame {
		// every known component must be materialised in each pred
		for c := range fx.compSort {
			allComp[c] = true
		}
		fx.fresh++
		st.base = fmt.Sprintf("HM%d", fx.fresh)
	}
	for _, c := range sortedKeys(allComp) {
		sortc := fx.compSort[c]
		if sortc == "" {
			for _, p := range preds {
				if t, ok := fx.outSt[p].heap[c]; ok && t.Sort != "" {
					sortc = t.Sort
				}
			}
		}
		if sortc == "" {
			// havoced but never read with a sort: keep the lazy placeholder of first pred that has one
			for _, p := range preds {
				if t, ok := fx.outSt[p].heap[c]; ok {
					st.heap[c] = t
				}
			}
			continue
		}
		var vs []Term
		for _, p := range preds {
			vs = append(vs, fx.outSt[p].getHeap(fx.P, c, sortc))
		}
		st.heap[c] = merge("h_"+c, vs, sortc)
	}
	var ns []Term
	for _, p := range preds {
		ns = append(ns, fx.outSt[p].next)
	}
	st.next = merge("next", ns, "Int")
	// iterators
	allIt := map[ssa.Value]bool{}
	for _, p := range preds {
		for it := range fx.outSt[p].iters {
			allIt[it] = true
		}
	}
	for it := range allIt {
		var vs []Term
		ok := true
		for _, p := range preds {
			v, has := fx.outSt[p].iters[it]
			if !has {
				ok = false
				break
			}
			vs = append(vs, v)
		}
		if ok {
			st.iters[it] = merge("it_"+it.Name(), vs, vs[0].Sort)
		}
	}
	return st
}

func (fx *FnCtx) loopEnv(li *loopInfo, st *State) *Env {
	env := fx.env(st)
	env.pre = li.preState
	env.loop = li
	if li.bodyPos.IsValid() {
		env.pos = li.bodyPos
	}
	return env
}

func (fx *FnCtx) enterLoop(li *loopInfo, st *State, preds []*ssa.BasicBlock) *State {
	P := fx.P
	li.preState = st.clone()
	// automatic frame invariant, init part
	{
		comps := map[string]bool{}
		locals := map[*ssa.Alloc]bool{}
		iters := map[ssa.Value]bool{}
		all, allocs := false, false
		for b := range li.blocks {
			for _, in := range b.Instrs {
				fx.instrWrites(in, locals, comps, &all, &allocs, iters)
			}
		}
		if fx.fc.AutoFrame && !all && !fx.fc.ModAll && fx.fc.Kind == "func" && li.spec != nil {
			for _, c := range sortedKeys(comps) {
				if fx.modSet[c] || strings.HasPrefix(c, "P$local:") || c == "*" {
					continue
				}
				if sc := fx.sortOfComp(c); strings.HasPrefix(sc, "(Array Int ") {
					li.frameComps = append(li.frameComps, c)
					fx.obligNamed(fmt.Sprintf("%s#inv.init@loop%d.frame.%s", fx.key, li.ord, sanitize(c)), fx.frameInv(st, c), "cells of "+c+" that existed at entry are unchanged (automatic frame invariant)", nil, "")
				}
			}
		}
	}
	// init obligations (evaluated in merged entry state, guarded by R_header)
	if li.spec != nil {
		for j, c := range li.spec.Invariants {
			env := fx.loopEnv(li, st)
			t, err := env.elabBool(c.E)
			if err != nil {
				fx.errf("binding failure: %s loop %d invariant %d (%s): %v", fx.key, li.ord, j, c.Text, err)
				continue
			}
			fx.obligNamed(fmt.Sprintf("%s#inv.init@loop%d.%d", fx.key, li.ord, j), t, c.Text, c.Props, c.Known)
		}
	}
	// havoc
	locals := map[*ssa.Alloc]bool{}
	comps := map[string]bool{}
	iters := map[ssa.Value]bool{}
	all, allocs := false, false
	for b := range li.blocks {
		for _, in := range b.Instrs {
			fx.instrWrites(in, locals, comps, &all, &allocs, iters)
		}
	}
	hs := st.clone()
	tag := fmt.Sprintf("L%d", li.ord)
	var las []*ssa.Alloc
	for a := range locals {
		las = append(las, a)
	}
	sort.Slice(las, func(i, j int) bool { return las[i].Name() < las[j].Name() })
	for _, a := range las {
		t := deref(a.Type())
		name := fmt.Sprintf("%s_%s_%s", tag, sanitize(a.Comment), a.Name())
		s := P.sorts.sortOf(t)
		fx.declare(name, s)
		hs.locals[a] = Term{name, s}
	}
	if allocs {
		n := fx.freshConst(tag+"_next", "Int")
		fx.assume(app("Bool", "<=", st.next, n))
		hs.next = n
	}
	for _, a := range las {
		fx.assume(fx.typeAssume(hs.locals[a], deref(a.Type()), hs))
	}
	if all {
		fx.fresh++
		hs.base = fmt.Sprintf("H%s_%d", tag, fx.fresh)
		hs.heap = map[string]Term{}
		fx.havocNext[hs.base] = hs.next
	} else {
		for _, c := range sortedKeys(comps) {
			fx.fresh++
			hs.heap[c] = Term{fmt.Sprintf("H%s_%s_%d", tag, sanitize(c), fx.fresh), ""}
			fx.havocNext[hs.heap[c].S] = hs.next
			if s, ok := fx.compSort[c]; ok {
				_ = hs.getHeap(P, c, s)
			}
		}
	}
	for it := range iters {
		if cur, ok := st.iters[it]; ok {
			n := fx.freshConst(tag+"_it", cur.Sort)
			hs.iters[it] = n
			if cur.Sort == "Int" {
				fx.assume(app("Bool", "<=", Term{"0", "Int"}, n))
			}
		}
	}
	li.headSt = hs
	for _, c := range li.frameComps {
		fx.assume(fx.frameInv(hs, c))
	}
	// assume invariants
	if li.spec != nil {
		for _, c := range li.spec.Invariants {
			env := fx.loopEnv(li, hs)
			t, err := env.elabBool(c.E)
			if err != nil {
				continue
			}
			fx.assume(t)
		}
		if li.spec.Decreases != nil {
			env := fx.loopEnv(li, hs)
			v, err := env.elab(li.spec.Decreases.E)
			if err != nil {
				fx.errf("binding failure: %s loop %d decreases: %v", fx.key, li.ord, err)
			} else {
				li.variant = &v.T
			}
		}
	}
	// string range iterator bound: pos <= len
	return hs.clone()
}

// sortOfComp: the SMT sort of a heap component, also when this function has not touched it yet (a callee writes it)
func (fx *FnCtx) sortOfComp(c string) string {
	if s := fx.compSort[c]; s != "" {
		return s
	}
	if t, ok := compTypes[c]; ok {
		var s string
		switch {
		case strings.HasPrefix(c, "E$"):
			s = elemSort(fx.P, t)
		case strings.HasPrefix(c, "F$"), strings.HasPrefix(c, "P$"):
			s = fmt.Sprintf("(Array Int %s)", fx.P.sorts.sortOf(t))
		}
		if s != "" {
			fx.compSort[c] = s
		}
		return s
	}
	return ""
}

// frameInv: every cell of component c that existed at function entry has its entry value in state st
func (fx *FnCtx) frameInv(st *State, c string) Term {
	sortc := fx.compSort[c]
	h0 := fx.entry.getHeap(fx.P, c, sortc)
	h1 := st.getHeap(fx.P, c, sortc)
	if h0.S == h1.S {
		return tTrue
	}
	return Term{fmt.Sprintf("(forall ((fr Int)) (! (=> (< fr next0) (= (select %s fr) (select %s fr))) :pattern ((select %s fr))))", h1.S, h0.S, h1.S), "Bool"}
}

func (fx *FnCtx) checkBackEdge(li *loopInfo, from *ssa.BasicBlock, succIdx int) {
	st := fx.outSt[from]
	cond := fx.edgeCond[[2]int{from.Index, li.header.Index}]
	// a loop with several back edges (continue statements) has one set of obligations per edge
	sfx := ""
	if li.backEdges > 0 {
		sfx = fmt.Sprintf("~e%d", li.backEdges)
	}
	li.backEdges++
	if li.spec == nil {
		fx.obligNamed(fmt.Sprintf("%s#inv.missing@loop%d%s", fx.key, li.ord, sfx), tFalse, "loop has no invariant in the contract", nil, "")
		return
	}
	for _, c := range li.frameComps {
		fx.obligNamed(fmt.Sprintf("%s#inv.keep@loop%d.frame.%s%s", fx.key, li.ord, sanitize(c), sfx), implies(cond, fx.frameInv(st, c)), "cells of "+c+" that existed at entry are unchanged (automatic frame invariant)", nil, "")
	}
	for j, c := range li.spec.Invariants {
		env := fx.loopEnv(li, st)
		t, err := env.elabBool(c.E)
		if err != nil {
			fx.errf("binding failure: %s loop %d invariant %d at back edge: %v", fx.key, li.ord, j, err)
			continue
		}
		fx.obligNamed(fmt.Sprintf("%s#inv.keep@loop%d.%d%s", fx.key, li.ord, j, sfx), implies(cond, t), c.Text, c.Props, c.Known)
	}
	if li.spec.Decreases != nil && li.variant != nil {
		env := fx.loopEnv(li, st)
		v, err := env.elab(li.spec.Decreases.E)
		if err == nil {
			t := and(app("Bool", "<=", Term{"0", "Int"}, *li.variant), app("Bool", "<", v.T, *li.variant))
			fx.obligNamed(fmt.Sprintf("%s#dec@loop%d%s", fx.key, li.ord, sfx), implies(cond, t), "decreases "+li.spec.Decreases.Text, li.spec.Decreases.Props, li.spec.Decreases.Known)
		}
	}
}

// ---------- names ----------

func (fx *FnCtx) lookupName(env *Env, name string) (Val, bool, error) {
	if g, ok := fx.ghosts[name]; ok {
		return g, true, nil
	}
	for _, ls := range fx.fc.Lets {
		if ls.Name == name {
			if ls.Type != "" {
				// a typed ghost that is not defined on this path (a return before its loop was left) denotes an
				// arbitrary value there: what mentions it has to hold whatever it is
				if gt, err := fx.P.resolveType(fx.fn.Pkg.Pkg, ls.Type); err == nil {
					c := fx.freshConst("ghost_undef_"+sanitize(name), fx.P.sorts.sortOf(gt))
					return Val{T: c, GoT: gt}, true, nil
				}
			}
			return Val{}, false, fmt.Errorf("ghost %s used before loop %d was left", name, ls.Loop)
		}
	}
	// scope-based lookup
	if fx.pkgInfo != nil && env.pos.IsValid() {
		if sc := fx.fn.Pkg.Pkg.Scope().Innermost(env.pos); sc != nil {
			if _, obj := sc.LookupParent(name, env.pos); obj != nil {
				if v, ok := obj.(*types.Var); ok && v.Parent() != fx.fn.Pkg.Pkg.Scope() {
					val, found, err := fx.varVal(env, v)
					if found || err != nil {
						return val, found, err
					}
					return Val{}, false, fmt.Errorf("variable %q has no storage in %s", name, fx.key)
				}
			}
		}
	}
	// a loop invariant may mention a variable declared directly in the loop's body (not in a nested block):
	// it denotes the variable's cell, i.e. the value left by the previous iteration (the zero value before the first)
	if env.loop != nil && fx.pkgInfo != nil && env.loop.bodyPos.IsValid() && env.loop.bodyEnd.IsValid() {
		if sc := fx.fn.Pkg.Pkg.Scope().Innermost(env.loop.bodyPos); sc != nil {
			if obj := sc.Lookup(name); obj != nil {
				if v, ok := obj.(*types.Var); ok && v.Pos() > env.loop.bodyPos && v.Pos() < env.loop.bodyEnd {
					if a, ok := fx.allocByPos[v.Pos()]; ok && !a.Heap {
						val, found, err := fx.varVal(env, v)
						if found || err != nil {
							return val, found, err
						}
					}
				}
			}
		}
	}
	// fallback by name among params
	if v, ok := fx.paramTerm[name]; ok {
		return v, true, nil
	}
	if env.laxLocals {
		// visible at function level?
		if fx.pkgInfo != nil && fx.scopePos.IsValid() && env.pos != fx.scopePos {
			e2 := *env
			e2.pos = fx.scopePos
			e2.laxLocals = false
			if v, ok, err := fx.lookupName(&e2, name); ok || err != nil {
				return v, ok, err
			}
		}
		// a local of the function that is out of scope here: arbitrary value of its type
		var hit *ssa.Alloc
		n := 0
		for _, a := range fx.allocByPos {
			if a.Comment == name {
				hit = a
				n++
			}
		}
		if n == 1 {
			t := deref(hit.Type())
			c := fx.freshConst("outofscope_"+name, fx.P.sorts.sortOf(t))
			return Val{T: c, GoT: t}, true, nil
		}
	}
	return Val{}, false, nil
}

func (fx *FnCtx) varVal(env *Env, v *types.Var) (Val, bool, error) {
	a, ok := fx.allocByPosType[fmt.Sprintf("%d|%s", v.Pos(), v.Type().String())]
	if !ok {
		a, ok = fx.allocByPos[v.Pos()]
	}
	if ok {
		t := deref(a.Type())
		if !a.Heap {
			cur, ok := env.st.locals[a]
			if !ok && env.localsSt != nil {
				// old(e) mentioning a local: the entry state has no such variable, its current value is meant
				cur, ok = env.localsSt.locals[a]
			}
			if !ok {
				cur = fx.P.sorts.zero(t)
			}
			return Val{T: cur, GoT: t}, true, nil
		}
		ref, ok := fx.vals[a]
		if !ok {
			// a parameter that lives in a heap cell (captured by a closure), named before the cell exists
			// (preconditions, entry hints): its value is the parameter itself
			for _, p := range fx.fn.Params {
				if p.Pos() == v.Pos() {
					if pv, ok := fx.vals[p]; ok {
						return Val{T: pv, GoT: p.Type()}, true, nil
					}
				}
			}
			return Val{}, false, fmt.Errorf("captured variable %s used before its allocation", v.Name())
		}
		return Val{T: env.st.read(fx.P, &Loc{kind: locPtr, base: ref, rootT: t}), GoT: t}, true, nil
	}
	for _, fv := range fx.fn.FreeVars {
		if fv.Pos() == v.Pos() || fv.Name() == v.Name() {
			t := deref(fv.Type())
			return Val{T: env.st.read(fx.P, &Loc{kind: locPtr, base: fx.vals[fv], rootT: t}), GoT: t}, true, nil
		}
	}
	for _, p := range fx.fn.Params {
		if p.Pos() == v.Pos() {
			return Val{T: fx.vals[p], GoT: p.Type()}, true, nil
		}
	}
	return Val{}, false, nil
}

// addrOfLocal: the address of a local variable that lives in a heap cell (its address is taken in the code).
func (fx *FnCtx) addrOfLocal(env *Env, name string) (Val, error) {
	if fx.pkgInfo != nil && env.pos.IsValid() {
		if sc := fx.fn.Pkg.Pkg.Scope().Innermost(env.pos); sc != nil {
			if _, obj := sc.LookupParent(name, env.pos); obj != nil {
				if v, ok := obj.(*types.Var); ok {
					if a, ok := fx.allocByPos[v.Pos()]; ok && a.Heap {
						if ref, ok := fx.vals[a]; ok {
							return Val{T: ref, GoT: a.Type()}, nil
						}
						return Val{}, fmt.Errorf("&%s used before its allocation", name)
					}
				}
			}
		}
	}
	return Val{}, fmt.Errorf("&%s: not a local variable whose address is taken", name)
}

func (fx *FnCtx) ghostVar(env *Env, name string) (Val, error) {
	li := env.loop
	if li == nil {
		return Val{}, fmt.Errorf("@%s used outside a loop clause", name)
	}
	switch name {
	case "pos", "it":
		if li.rangeIt == nil {
			return Val{}, fmt.Errorf("@%s: loop %d is not a range-over-string/map loop", name, li.ord)
		}
		t, ok := env.st.iters[li.rangeIt]
		if !ok {
			return Val{}, fmt.Errorf("@%s: iterator state missing", name)
		}
		return Val{T: t, GoT: types.Typ[types.Int]}, nil
	case "idx":
		if li.rangeIdx == nil {
			return Val{}, fmt.Errorf("@idx: loop %d is not an indexed range loop", li.ord)
		}
		cur, ok := env.st.locals[li.rangeIdx]
		if !ok {
			cur = Term{"0", "Int"}
		}
		return Val{T: cur, GoT: types.Typ[types.Int]}, nil
	}
	return Val{}, fmt.Errorf("unknown ghost variable @%s", name)
}
