package fc06c

import (
	"golang.org/x/mod/module"
	"path"
	"testing"
)

// F-C06c: the documentation of MatchPrefixPatterns says it "reports whether any path prefix of target matches one
// of the glob patterns (as defined by path.Match)".  The glob below matches the path prefix "a/b" according to
// path.Match, yet MatchPrefixPatterns reports false: it only tries the prefix with as many slashes as the glob text.
// Run with findings/F-C06c/run.sh (fails on the current tree: that is the finding).
func TestFC06c(t *testing.T) {
	const glob, target = "a[.-0]b", "a/b"
	m, err := path.Match(glob, target)
	if err != nil || !m {
		t.Skipf("path.Match(%q, %q) = %v, %v: premise does not hold", glob, target, m, err)
	}
	if !module.MatchPrefixPatterns(glob, target) {
		t.Errorf("MatchPrefixPatterns(%q, %q) = false although path.Match(%q, %q) = true", glob, target, glob, target)
	}
}
