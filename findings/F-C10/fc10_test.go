// Reproduction of findings F-C10a / F-C10b against the real golang.org/x/mod/sumdb/tlog.
// Run from a scratch module with `replace golang.org/x/mod => /repo` (see run.sh).
package fc10

import (
	"fmt"
	"testing"

	"golang.org/x/mod/sumdb/tlog"
)

type memHashes []tlog.Hash

func (m memHashes) ReadHashes(idx []int64) ([]tlog.Hash, error) {
	out := make([]tlog.Hash, len(idx))
	for i, x := range idx {
		out[i] = m[x]
	}
	return out, nil
}

type tileServer struct {
	h       int
	tiles   map[tlog.Tile][]byte
	corrupt tlog.Tile
	saved   map[tlog.Tile][]byte
}

func (s *tileServer) Height() int { return s.h }
func (s *tileServer) ReadTiles(tiles []tlog.Tile) ([][]byte, error) {
	out := make([][]byte, len(tiles))
	for i, t := range tiles {
		d := append([]byte(nil), s.tiles[t]...)
		if t == s.corrupt {
			d[0] ^= 0xff
		}
		out[i] = d
	}
	return out, nil
}
func (s *tileServer) SaveTiles(tiles []tlog.Tile, data [][]byte) {
	for i, t := range tiles {
		s.saved[t] = data[i]
	}
}

// F-C10a: a corrupted tile that is planned while the tree hash tiles are deduplicated is never authenticated.
func TestCorruptTileAccepted(t *testing.T) {
	const N, H = 7, 2
	var store memHashes
	for i := int64(0); i < N; i++ {
		hs, err := tlog.StoredHashes(i, []byte(fmt.Sprintf("leaf %d", i)), store)
		if err != nil {
			t.Fatal(err)
		}
		store = append(store, hs...)
	}
	th, _ := tlog.TreeHash(N, store)
	srv := &tileServer{h: H, tiles: map[tlog.Tile][]byte{}, saved: map[tlog.Tile][]byte{}}
	for _, tile := range tlog.NewTiles(H, 0, N) {
		d, err := tlog.ReadTileData(tile, store)
		if err != nil {
			t.Fatal(err)
		}
		srv.tiles[tile] = d
	}
	srv.corrupt = tlog.Tile{H: H, L: 0, N: 0, W: 4}
	r := tlog.TileHashReader(tlog.Tree{N: N, Hash: th}, srv)
	got, err := r.ReadHashes([]int64{tlog.StoredHashIndex(0, 0)})
	if err != nil {
		return // rejected: fine
	}
	if got[0] != store[tlog.StoredHashIndex(0, 0)] {
		t.Errorf("ReadHashes returned a wrong hash for leaf 0 without error (corrupted tile %v was not authenticated)", srv.corrupt)
	}
	if d, ok := srv.saved[srv.corrupt]; ok && string(d) != string(srv.tiles[srv.corrupt]) {
		t.Errorf("corrupted tile %v was passed to SaveTiles", srv.corrupt)
	}
}

// F-C10b: ReadHashes on an empty tree panics (index -1) instead of returning.
func TestEmptyTreePanics(t *testing.T) {
	defer func() {
		if r := recover(); r != nil {
			t.Errorf("ReadHashes on an empty tree panicked: %v", r)
		}
	}()
	srv := &tileServer{h: 2, tiles: map[tlog.Tile][]byte{}, saved: map[tlog.Tile][]byte{}}
	tlog.TileHashReader(tlog.Tree{N: 0}, srv).ReadHashes(nil)
}
