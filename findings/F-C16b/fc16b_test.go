package fc16b

import (
	"testing"

	"golang.org/x/mod/modfile"
	"golang.org/x/mod/module"
)

// F-C16b: setting a requirement to "direct" must leave a file that reads back as direct.  Before the fix,
// a requirement whose comment was "// indirect; indirect" kept an indirect marker: setIndirect(false) removed one
// "indirect;" prefix and what remained ("// indirect") is again an indirect marker.
func TestFC16b(t *testing.T) {
	for _, c := range []string{"// indirect; indirect", "// indirect; indirect; pinned", "// indirect; indirect; indirect"} {
		src := "module m\n\nrequire a.b/c v1.0.0 " + c + "\n"
		f, err := modfile.Parse("go.mod", []byte(src), nil)
		if err != nil {
			t.Fatal(err)
		}
		f.SetRequire([]*modfile.Require{{Mod: module.Version{Path: "a.b/c", Version: "v1.0.0"}, Indirect: false}})
		f.Cleanup()
		out, err := f.Format()
		if err != nil {
			t.Fatal(err)
		}
		g, err := modfile.Parse("go.mod", out, nil)
		if err != nil {
			t.Fatalf("%q: %v", out, err)
		}
		if len(g.Require) != 1 || g.Require[0].Indirect {
			t.Errorf("comment %q: requested direct, file reads back as indirect:\n%s", c, out)
		}
	}
}
