#!/bin/bash
# usage: run.sh [repo-dir]   -- runs the reproduction against the given checkout (default /repo) in a scratch module
repo=${1:-/repo}
d=$(mktemp -d /tmp/fc16b.XXXXXX)
cp "$(dirname "$0")/fc16b_test.go" $d/
cat > $d/go.mod <<EOM
module fc16b
go 1.22
require golang.org/x/mod v0.0.0
replace golang.org/x/mod => $repo
EOM
cp $repo/go.sum $d/ 2>/dev/null
(cd $d && GOFLAGS=-mod=mod GOPROXY=off GOSUMDB=off GOTOOLCHAIN=local timeout 120 go test -count=1 -timeout 60s ./... 2>&1 | tail -12)
rm -rf $d
