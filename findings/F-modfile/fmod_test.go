// Reproductions of the modfile findings against the real golang.org/x/mod/modfile (see run.sh).
package fmod

import (
	"testing"

	"golang.org/x/mod/modfile"
)

func parse(t *testing.T, s string) *modfile.File {
	f, err := modfile.Parse("go.mod", []byte(s), nil)
	if err != nil {
		t.Fatal(err)
	}
	return f
}

// F-C15a: AddRetract adds the line but not the typed entry; a later DropRetract in the same session cannot see it.
func TestAddRetractRecorded(t *testing.T) {
	f := parse(t, "module m.example\n")
	vi := modfile.VersionInterval{Low: "v1.0.0", High: "v1.0.0"}
	if err := f.AddRetract(vi, "bad"); err != nil {
		t.Fatal(err)
	}
	if len(f.Retract) != 1 || f.Retract[0].VersionInterval != vi || f.Retract[0].Rationale != "bad" {
		t.Errorf("after AddRetract, f.Retract = %v; want one entry %v with rationale", f.Retract, vi)
	}
	f.DropRetract(vi)
	f.Cleanup()
	out, _ := f.Format()
	if g, _ := modfile.Parse("go.mod", out, nil); g != nil && len(g.Retract) != 0 {
		t.Errorf("DropRetract after AddRetract left the directive in the file:\n%s", out)
	}
}

// F-C15b: File.Cleanup leaves cleared Tool entries.
func TestCleanupTool(t *testing.T) {
	f := parse(t, "module m.example\ntool a.example/x\n")
	f.DropTool("a.example/x")
	f.Cleanup()
	for _, tl := range f.Tool {
		if tl.Path == "" {
			t.Errorf("f.Tool holds a cleared placeholder after DropTool+Cleanup")
		}
	}
}

// F-C15c: WorkFile.Cleanup leaves cleared Godebug entries.
func TestWorkCleanupGodebug(t *testing.T) {
	f, err := modfile.ParseWork("go.work", []byte("go 1.21\ngodebug a=b\n"), nil)
	if err != nil {
		t.Fatal(err)
	}
	f.DropGodebug("a")
	f.Cleanup()
	for _, g := range f.Godebug {
		if g.Key == "" {
			t.Errorf("f.Godebug holds a cleared placeholder after DropGodebug+Cleanup")
		}
	}
}

// F-C15d: AddReplace(path, "", ...) on a versioned replacement rewrites the line but leaves Old.Version stale.
func TestAddReplaceOldStale(t *testing.T) {
	f := parse(t, "module m.example\nreplace a.example/a v1.1.0 => ../y\n")
	if err := f.AddReplace("a.example/a", "", "../x", ""); err != nil {
		t.Fatal(err)
	}
	f.Cleanup()
	out, _ := f.Format()
	g, err := modfile.Parse("go.mod", out, nil)
	if err != nil {
		t.Fatal(err)
	}
	if len(f.Replace) != 1 || len(g.Replace) != 1 || f.Replace[0].Old != g.Replace[0].Old {
		t.Errorf("typed entry Old = %v but the formatted file says %v", f.Replace[0].Old, g.Replace[0].Old)
	}
}

// F-C15e: an operation that removes non-matching entries panics on an entry cleared by an earlier Drop.
func TestDropThenSet(t *testing.T) {
	defer func() {
		if r := recover(); r != nil {
			t.Errorf("DropUse followed by SetUse panicked: %v", r)
		}
	}()
	f, err := modfile.ParseWork("go.work", []byte("go 1.21\nuse ./a\nuse ./b\n"), nil)
	if err != nil {
		t.Fatal(err)
	}
	f.DropUse("./a")
	f.SetUse([]*modfile.Use{{Path: "./b"}})
	f.Cleanup()
}

func TestDropThenSetRequire(t *testing.T) {
	defer func() {
		if r := recover(); r != nil {
			t.Errorf("DropRequire followed by SetRequire panicked: %v", r)
		}
	}()
	f := parse(t, "module m.example\nrequire a.example/a v1.0.0\nrequire b.example/b v1.0.0\n")
	f.DropRequire("a.example/a")
	f.SetRequire([]*modfile.Require{{Mod: f.Require[1].Mod}})
	f.Cleanup()
}

// F-C16a: SetUse adds a second directive for a path that is already used.
func TestSetUseDup(t *testing.T) {
	f, err := modfile.ParseWork("go.work", []byte("go 1.21\nuse ./a\n"), nil)
	if err != nil {
		t.Fatal(err)
	}
	f.SetUse([]*modfile.Use{{Path: "./a"}, {Path: "./b"}})
	f.Cleanup()
	if len(f.Use) != 2 {
		t.Errorf("SetUse({./a, ./b}) on a file with use ./a leaves %d use directives:\n%s", len(f.Use), modfile.Format(f.Syntax))
	}
}
