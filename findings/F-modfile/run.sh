#!/bin/bash
# usage: run.sh [repo-dir] [go test -run pattern]
repo=${1:-/repo}
d=$(mktemp -d /tmp/fmod.XXXXXX)
cp "$(dirname "$0")/fmod_test.go" $d/
cat > $d/go.mod <<EOM
module fmod
go 1.22
require golang.org/x/mod v0.0.0
replace golang.org/x/mod => $repo
EOM
cp $repo/go.sum $d/ 2>/dev/null
(cd $d && GOFLAGS=-mod=mod GOPROXY=off GOSUMDB=off GOTOOLCHAIN=local timeout 120 go test -count=1 -timeout 60s -run "${2:-.}" ./... 2>&1 | grep -E "^(--- |ok|FAIL|    )" | cut -c1-160)
rm -rf $d
