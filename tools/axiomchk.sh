#!/bin/bash
# Validates the assumed library axioms of the prelude against the real library functions (exhaustive / large
# enumerations): utf8_decode (utf8chk), fold_ascii (foldchk), pseudo_version_pattern (repvchk), fields_* (fieldschk).
export GOFLAGS=-mod=mod GOPROXY=off GOSUMDB=off GOTOOLCHAIN=local
rc=0
for t in utf8chk foldchk repvchk fieldschk; do
  d=/verif/tools/$t
  if ls $d/*_test.go >/dev/null 2>&1; then (cd $d && go test -count=1 ./... 2>&1 | tail -2) || rc=1; else (cd $d && go run . 2>&1 | tail -2) || rc=1; fi
done
exit $rc
