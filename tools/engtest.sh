#!/bin/bash
# Engine conformance self-test: ENG clauses must all verify, every ENGBAD clause must fail.
d=$(mktemp -d /tmp/engtest.XXXXXX)
rsync -a --exclude .git /repo/ $d/
cp /verif/selftest/engine/zz_eng.go.txt $d/semver/zz_eng.go
cp /verif/selftest/engine/zz_contracts_eng_verif.go.txt $d/semver/zz_contracts_eng_verif.go
rc=0
good=$(/verif/bin/govc check --prop ENG --repo $d --no-evidence --timeout 10 2>&1 | tail -1)
echo "ENG:    $good"
echo "$good" | grep -q "violations=0" || rc=1
bad=$(/verif/bin/govc check --prop ENGBAD --repo $d --no-evidence --timeout 4 -v 2>&1)
nbad=$(echo "$bad" | grep -E "^(unsat|unknown|sat|timeout|error)" | grep -c "post\.b[0-9]*@")
nfail=$(echo "$bad" | grep -E "^(unknown|sat|timeout)" | grep -c "post\.b[0-9]*@")
echo "ENGBAD: $nfail of $nbad false clauses rejected"
[ "$nbad" -gt 0 ] && [ "$nfail" -eq "$nbad" ] || rc=1
rm -rf $d
exit $rc
