module fieldschk
go 1.22
