// fieldschk validates the assumed laws about strings.Fields / strings.TrimSpace (prelude/20_stdlib.spec: fields_count,
// fields_marker_only, fields_marker_first and the contract of strings.TrimSpace) against the real functions on a
// large set of generated strings (all strings over a small alphabet that includes ASCII and Unicode white space,
// up to length 6, plus random longer ones).  Exit 1 on the first counterexample.
package main

import (
	"fmt"
	"math/rand"
	"os"
	"strings"
	"unicode"
)

var alphabet = []rune{' ', '\t', '\n', ' ', ' ', 'a', 'i', ';', '/', 'é', '—'}

func nf(s string) int { return len(strings.Fields(s)) }
func ff(s string) string {
	f := strings.Fields(s)
	if len(f) == 0 {
		return ""
	}
	return f[0]
}
func nosp(w string) bool {
	return w != "" && strings.IndexFunc(w, unicode.IsSpace) < 0
}

func check(s string) error {
	n := nf(s)
	if n < 0 {
		return fmt.Errorf("NF < 0")
	}
	if n >= 1 {
		f := ff(s)
		if !nosp(f) || !strings.Contains(s, f) || len(f) > len(s) {
			return fmt.Errorf("fields_count fails for %q", s)
		}
	}
	t := strings.TrimSpace(s)
	if nf(t) != n || (n >= 1 && ff(t) != ff(s)) || (t == "") != (n == 0) || (n == 1 && t != ff(s)) || len(t) > len(s) {
		return fmt.Errorf("TrimSpace contract fails for %q", s)
	}
	if n >= 1 {
		g := strings.Fields(strings.TrimPrefix("// indirect; "+s, "//"))
		if len(g) != 1+n || g[0] != "indirect;" {
			return fmt.Errorf("fields_marker_first fails for %q", s)
		}
	}
	return nil
}

func main() {
	g := strings.Fields(strings.TrimPrefix("// indirect", "//"))
	if len(g) != 1 || g[0] != "indirect" {
		fmt.Println("fields_marker_only fails")
		os.Exit(1)
	}
	count := 0
	var rec func(prefix []rune, depth int)
	rec = func(prefix []rune, depth int) {
		if err := check(string(prefix)); err != nil {
			fmt.Println(err)
			os.Exit(1)
		}
		count++
		if depth == 0 {
			return
		}
		for _, r := range alphabet {
			rec(append(prefix, r), depth-1)
		}
	}
	rec(nil, 6)
	rng := rand.New(rand.NewSource(1))
	for i := 0; i < 200000; i++ {
		n := rng.Intn(40)
		b := make([]rune, n)
		for j := range b {
			b[j] = alphabet[rng.Intn(len(alphabet))]
		}
		if err := check(string(b)); err != nil {
			fmt.Println(err)
			os.Exit(1)
		}
		count++
	}
	fmt.Printf("fieldschk: %d strings, all laws hold\n", count)
}
