#!/bin/bash
# usage: flaky.sh [props...]  runs every claimed check with a short solver timeout and no seeded retries; anything
# reported here on the unchanged tree is an obligation too slow to be claimed safely (DESIGN 2.6)
cd /verif
props=${@:-$(jq -r '.checks[].property_id' MANIFEST.json)}
for p in $props; do
  out=$(bin/govc check --prop $p --no-evidence --no-retry --timeout 6 -v 2>&1)
  echo "$p: $(echo "$out" | tail -1)"
  echo "$out" | grep -v "^unsat\|^VIOL\|^  \|^govc\|^KNOWN" | head -10
done
