module foldchk
go 1.22
