package foldchk

// Validation of the assumed axiom fold_ascii (prelude/40_os_zip.spec): for every ASCII rune other than A-Z the canonical member
// of its unicode.SimpleFold orbit, after the A-Z => a-z exception of zip.strToFold, is the rune itself.
import (
	"testing"
	"unicode"
)

func canon(r rune) rune {
	for {
		r0 := r
		r = unicode.SimpleFold(r0)
		if r <= r0 {
			break
		}
	}
	if 'A' <= r && r <= 'Z' {
		r += 'a' - 'A'
	}
	return r
}

func TestAxiom(t *testing.T) {
	for r := rune(0); r < 128; r++ {
		if 'A' <= r && r <= 'Z' {
			continue
		}
		if c := canon(r); c != r {
			t.Fatalf("canon(%q) = %q", r, c)
		}
	}
}
