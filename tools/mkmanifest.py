#!/usr/bin/env python3
# Regenerates /verif/MANIFEST.json from tools/props.json (claimed checks + not_applicable reasons).
import json, subprocess
props=[json.loads(l) for l in open('/verif/properties.jsonl')]
cfg=json.load(open('/verif/tools/props.json'))
hooks=subprocess.run(['git','-C','/repo','log','--format=%H %s'],capture_output=True,text=True).stdout.strip().split('\n')
hook_commits=[l.split()[0] for l in hooks if 'verif hooks' in l]
checks=[];na=[]
for p in props:
    pid=p['id']
    c=cfg.get(pid,{})
    if c.get('claimed'):
        checks.append({"property_id":pid,
          "quick_cmd":f"/verif/bin/govc check --prop {pid} --tier quick",
          "thorough_cmd":f"/verif/bin/govc check --prop {pid} --tier thorough",
          "evidence_file":f"/verif/evidence/{pid}.json",
          "engine":"govc",
          "level_claimed":{"category":"proof","text":c['text'],"design_ref":c.get('design_ref','DESIGN.md section 4')},
          "level_note":c['note'],
          "technique":"contract-based deductive verification: contracts on the real functions, VCs generated from go/ssa of /repo's working tree on every run, discharged by z3/cvc5"})
    else:
        na.append({"property_id":pid,"reason":c.get('reason',"check not built yet (engine under construction); see DESIGN.md section 0 for the planned verdict")})
m={"version":1,
 "setup_cmd":"cd /verif/engine && GOFLAGS=-mod=mod GOPROXY=off GOSUMDB=off GOTOOLCHAIN=local go build -o /verif/bin/govc .",
 "hooks":{"guard":"verif","enable":"contracts are comment-only files /repo/<pkg>/zz_contracts_verif.go behind //go:build verif; govc reads them as text; go build -tags verif compiles identical code","baseline_off_cmd":"cd /repo && go test -vet=off -count=1 ./...","source_commits":hook_commits,"add_only":True},
 "engines":[{"name":"govc","path":"/verif/engine","serves_properties":[c['property_id'] for c in checks],"kind_free_text":"contract-based deductive verifier: go/ssa (naive form) -> per-obligation SMT-LIB VCs, raced on z3 4.8.12 / z3 5.1.0 / cvc5 1.0"}],
 "checks":checks,"not_applicable":na,
 "notes":"Every claimed check is `govc check --prop <id>`: it reloads /repo's working tree, regenerates all obligations of the functions and lemmas tagged with the property, and exits 1 with VIOLATION lines naming the failed obligation. Sub-claims not decided are listed per property in DESIGN.md and in evidence assumptions."}
json.dump(m,open('/verif/MANIFEST.json','w'),indent=1)
print(len(checks),'checks',len(na),'not applicable')
