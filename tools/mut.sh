#!/bin/bash
# usage: mut.sh <prop> <file-relative-to-repo> <sed-expr> [extra govc args]
# copies /repo to a scratch dir, applies the edit, runs govc against it, removes the copy.
set -u
prop=$1; file=$2; expr=$3; shift 3
d=$(mktemp -d /tmp/mutrepo.XXXXXX)
rsync -a --exclude .git /repo/ $d/
sed -i "$expr" $d/$file
if diff -q /repo/$file $d/$file >/dev/null; then echo "MUTATION DID NOT APPLY"; rm -rf $d; exit 3; fi
diff /repo/$file $d/$file | head -6
/verif/bin/govc check --prop $prop --repo $d --no-evidence "$@" | grep -E "VIOLATION|failed obligation|govc:|ENGINE|binding" | head -12
rm -rf $d
