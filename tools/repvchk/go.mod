module repvchk
go 1.22
