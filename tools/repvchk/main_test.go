package repvchk

import (
	"math/rand"
	"regexp"
	"testing"
)

var re = regexp.MustCompile(`^v[0-9]+\.(0\.0-|\d+\.\d+-([^+]*\.)?0\.)\d{14}-[A-Za-z0-9]+(\+[0-9A-Za-z-]+(\.[0-9A-Za-z-]+)*)?$`)

func isdig(c byte) bool { return c >= '0' && c <= '9' }
func isidc(c byte) bool {
	return c >= 'A' && c <= 'Z' || c >= 'a' && c <= 'z' || isdig(c) || c == '-'
}
func alnum(c byte) bool { return c >= 'A' && c <= 'Z' || c >= 'a' && c <= 'z' || isdig(c) }
func digend(s string, a int) int {
	for a >= 0 && a < len(s) && isdig(s[a]) {
		a++
	}
	return a
}
func firstplus(s string, a int) int {
	for a >= 0 && a < len(s) && s[a] != '+' {
		a++
	}
	return a
}
func lastb(s string, c byte, e int) int {
	if e <= 0 || e > len(s) {
		return -1
	}
	if s[e-1] == c {
		return e - 1
	}
	return lastb(s, c, e-1)
}
func at(s string, i int) int {
	if i < 0 || i >= len(s) {
		return -1 - rand.Intn(1) // out of range reads are arbitrary in the logic; use a non-byte value
	}
	return int(s[i])
}

// idseq(s,a,e,false)
func idseq(s string, a, e int) bool {
	if !(a < e) || e > len(s) || a < 0 {
		return false
	}
	for k := a; k < e; k++ {
		if !(isidc(s[k]) || s[k] == '.') {
			return false
		}
	}
	if s[a] == '.' || s[e-1] == '.' {
		return false
	}
	for k := a; k+1 < e; k++ {
		if s[k] == '.' && s[k+1] == '.' {
			return false
		}
	}
	return true
}
func pvprefix(v string, q int) bool {
	if !(len(v) > 0 && v[0] == 'v') {
		return false
	}
	PA := digend(v, 1)
	if !(PA > 1 && PA < q && at(v, PA) == '.') {
		return false
	}
	if q == PA+5 && at(v, PA+1) == '0' && at(v, PA+2) == '.' && at(v, PA+3) == '0' && at(v, PA+4) == '-' {
		return true
	}
	PB := digend(v, PA+1)
	PC := digend(v, PB+1)
	return PB > PA+1 && PB < q && at(v, PB) == '.' && PC > PB+1 && PC < q && at(v, PC) == '-' &&
		q >= PC+3 && at(v, q-1) == '.' && at(v, q-2) == '0' && (q-2 == PC+1 || at(v, q-3) == '.')
}
func repv(v string) bool {
	PE := firstplus(v, 0)
	PJ := lastb(v, '-', PE)
	if !(PJ >= 15 && PJ+1 < PE) {
		return false
	}
	for k := PJ + 1; k < PE; k++ {
		if !alnum(v[k]) {
			return false
		}
	}
	for k := PJ - 14; k < PJ; k++ {
		if !isdig(v[k]) {
			return false
		}
	}
	return pvprefix(v, PJ-14) && (PE == len(v) || idseq(v, PE+1, len(v)))
}

var pieces = []string{"v", "1", "0", "12", ".", "-", "+", "0.", ".0", "0.0-", "-0.", "20060102150405", "2006010215040", "200601021504055", "abc", "A1", "pre", "x.y", "..", "\n", "é", "+meta", "+a.b", "+a..b", "+", "-rc.1", ".0.", "01"}

func TestRepv(t *testing.T) {
	r := rand.New(rand.NewSource(1))
	bases := []string{"v1.0.0-", "v0.0.0-", "v1.2.3-0.", "v1.2.3-pre.0.", "v12.34.56-a-b.c.0.", "v1.2-0.", "v1.0.0-0.", "v1.2.3-.0.", "v1.2.3-0", "v1.2.3.0.", "v.1.2-0.", "v1.02.3-0."}
	n, pos := 0, 0
	check := func(s string) {
		n++
		a, b := re.MatchString(s), repv(s)
		if a {
			pos++
		}
		if a != b {
			t.Fatalf("mismatch on %q: regexp=%v REPV=%v", s, a, b)
		}
	}
	for i := 0; i < 400000; i++ {
		s := bases[r.Intn(len(bases))] + "20060102150405-" + pieces[14+r.Intn(4)]
		if r.Intn(2) == 0 {
			s += pieces[21+r.Intn(4)]
		}
		// mutate
		for m := r.Intn(3); m > 0; m-- {
			p := r.Intn(len(s) + 1)
			switch r.Intn(3) {
			case 0:
				s = s[:p] + pieces[r.Intn(len(pieces))] + s[p:]
			case 1:
				if p < len(s) {
					s = s[:p] + s[p+1:]
				}
			case 2:
				if p < len(s) {
					s = s[:p] + string("v0123456789.-+aZ"[r.Intn(16)]) + s[p+1:]
				}
			}
		}
		check(s)
	}
	for i := 0; i < 200000; i++ {
		s := ""
		for k := r.Intn(8); k >= 0; k-- {
			s += pieces[r.Intn(len(pieces))]
		}
		check(s)
	}
	t.Logf("%d strings, %d matches", n, pos)
}
