#!/bin/bash
# usage: runall.sh [props...]   runs the quick check of every claimed property (or the given ones) on /repo and prints one line each
export GOFLAGS=-mod=mod GOPROXY=off GOSUMDB=off GOTOOLCHAIN=local
cd /verif
props=${@:-$(jq -r '.checks[].property_id' MANIFEST.json)}
rc=0
for p in $props; do
  s=$(date +%s); out=$(bin/govc check --prop $p --tier quick 2>&1); r=$?; e=$(date +%s)
  [ $r = 0 ] || rc=1
  echo "$p rc=$r t=$((e-s))s :: $(echo "$out" | grep -c '^KNOWN-FINDING') known :: $(echo "$out" | tail -1)"
  [ $r = 0 ] || echo "$out" | grep -E "VIOLATION|failed obligation|ENGINE|binding" | head -10
done
exit $rc
