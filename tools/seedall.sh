#!/bin/bash
# usage: seedall.sh [glob]   (default: every /verif/seeded/*)
# Runs every stored seeded change against the checks of the property it breaks (meta.json: check_props, default
# breaks_property) on a scratch copy of /repo, and prints caught/missed with the first failed obligation.
# Exit 1 if a change whose meta.json says "caught" is no longer caught.
cd /verif/seeded || exit 2
rc=0
for m in ${1:-*}; do
  [ -f $m/patch.diff ] || continue
  props=$(python3 -c "
import json,sys
d=json.load(open('$m/meta.json'))
print(' '.join(d.get('check_props',[d['breaks_property']])))")
  expect=$(python3 -c "
import json
print(json.load(open('$m/meta.json')).get('result',''))")
  d=$(mktemp -d /tmp/seedall.XXXXXX)
  rsync -a --exclude .git /repo/ $d/
  if ! (cd $d && patch -p1 -s < /verif/seeded/$m/patch.diff); then echo "$m: PATCH-FAILED"; rc=1; rm -rf $d; continue; fi
  res=""; any=0
  for p in $props; do
    out=$(/verif/bin/govc check --prop $p --repo $d --no-evidence ${SEEDFLAGS:-} 2>&1)
    if echo "$out" | grep -q "^VIOLATION property=$p"; then
      any=1
      res="$res $p:caught[$(echo "$out" | grep 'failed obligation' | head -1 | sed 's/.*failed obligation: //; s/ \[.*//')]"
    else
      res="$res $p:missed"
    fi
  done
  echo "$m:$res"
  case "$expect" in caught*) [ $any = 1 ] || { echo "  REGRESSION: $m was caught before"; rc=1; } ;; esac
  rm -rf $d
done
exit $rc
