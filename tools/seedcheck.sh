#!/bin/bash
# usage: seedcheck.sh <dir-with-m*/patch.diff | "quoted glob of mutant dirs"> <prop> [more props]
# applies each candidate change to a scratch copy of /repo and reports whether `govc check --prop` raises a VIOLATION
src=$1; shift
if [ -d "$src" ]; then list=$(ls -d $src/m*/); else list=$(ls -d $src); fi
for m in $list; do m=$(realpath $m)
  d=$(mktemp -d /tmp/seedchk.XXXXXX)
  rsync -a --exclude .git /repo/ $d/
  if ! (cd $d && patch -p1 -s < $m/patch.diff); then echo "$(basename $m): PATCH-FAILED"; rm -rf $d; continue; fi
  res=""
  for p in "$@"; do
    out=$(/verif/bin/govc check --prop $p --repo $d --no-evidence --timeout 8 2>&1)
    if echo "$out" | grep -q "^VIOLATION property=$p"; then
      res="$res $p:CAUGHT[$(echo "$out" | grep 'failed obligation' | head -1 | sed 's/.*failed obligation: //; s/ \[.*//')$(echo "$out" | grep -c 'replay=[^ ]*$' | sed 's/^0$//; s/^[1-9].*/ +input/')]"
    elif echo "$out" | grep -q "ENGINE-ERROR\|cannot load"; then
      res="$res $p:ENGINE-ERROR"
    else
      res="$res $p:missed"
    fi
  done
  echo "$(basename $m):$res"
  rm -rf $d
done
