#!/bin/bash
# usage: seedconfirm.sh <mutant-dir> <pkg-dir-for-demo> <test pkgs...>
# confirms: patch applies, builds, existing tests of the given packages pass, demo fails with and passes without the patch
m=$1; demo=$2; shift 2
export GOFLAGS=-mod=mod GOPROXY=off GOSUMDB=off GOTOOLCHAIN=local
d=$(mktemp -d /tmp/seedcf.XXXXXX)
rsync -a --exclude .git /repo/ $d/
cp $m/demo_test.go $d/$demo/zz_demo_test.go
base=$(cd $d && go test -vet=off -count=1 -run 'TestMutant|Test' ./$demo/ 2>&1 | tail -1)
basedemo=$(cd $d && go test -vet=off -count=1 -run TestMutant ./$demo/ 2>&1 | grep -c "^--- FAIL" )
(cd $d && patch -p1 -s < $m/patch.diff) || { echo "PATCH FAILED"; rm -rf $d; exit 1; }
(cd $d && go build ./... ) || { echo "BUILD FAILED"; rm -rf $d; exit 1; }
rm $d/$demo/zz_demo_test.go
existing=$(cd $d && go test -vet=off -count=1 "$@" 2>&1 | grep -E "^(--- FAIL|FAIL|ok)" | grep -v "TestCertificateTransparency\|TestVCS" | grep -c "^--- FAIL")
cp $m/demo_test.go $d/$demo/zz_demo_test.go
withdemo=$(cd $d && go test -vet=off -count=1 -run TestMutant ./$demo/ 2>&1 | grep -c "^--- FAIL")
echo "$(basename $m): demo-fails-without-patch=$basedemo existing-fails-with-patch=$existing demo-fails-with-patch=$withdemo"
rm -rf $d
