#!/usr/bin/env python3
# usage: seedimport.py <agent-out-dir> <seed-prefix> <property> <demo-pkg-dir> <test pkgs...>
# Confirms each candidate change with tools/seedconfirm.sh and stores the confirmed ones under /verif/seeded/<prefix>-m<k>/.
import sys, os, subprocess, json, shutil, re
out, prefix, prop, demo = sys.argv[1:5]; pkgs = sys.argv[5:]
for m in sorted(os.listdir(out)):
    d = os.path.join(out, m)
    if not (os.path.isdir(d) and os.path.exists(os.path.join(d, 'patch.diff'))): continue
    note0 = open(os.path.join(d, 'note.txt')).read()
    mm = re.search(r'[Dd]emo dir[^:]*:\s*`?([\w/]+)`?', note0)
    demo_m = mm.group(1) if mm else demo
    r = subprocess.run(['/verif/tools/seedconfirm.sh', d, demo_m] + pkgs, capture_output=True, text=True)
    line = (r.stdout.strip().splitlines() or ['?'])[-1]
    ok = 'demo-fails-without-patch=0' in line and 'existing-fails-with-patch=0' in line and not line.endswith('demo-fails-with-patch=0') and 'FAILED' not in line
    print(m, 'CONFIRMED' if ok else 'REJECTED', line)
    if not ok: continue
    dst = f'/verif/seeded/{prefix}-{m}'
    if os.path.exists(dst) or os.environ.get('ROUND'): dst = f'/verif/seeded/{prefix}-' + os.environ.get('ROUND','r5') + m
    os.makedirs(dst, exist_ok=True)
    for f in ('patch.diff', 'demo_test.go', 'note.txt'):
        shutil.copy(os.path.join(d, f), dst)
    note = open(os.path.join(d, 'note.txt')).read()
    meta = {"breaks_property": prop, "check_props": [prop], "demo_dir": demo_m,
            "needs_to_manifest": note[:1500],
            "origin": "fresh sub-agent given only the property text and a scratch worktree",
            "confirmed": "tools/seedconfirm.sh: patch applies to a copy of /repo HEAD, builds, existing package tests pass (network-only tests aside), demo_test.go fails with the patch and passes without it (" + line + ")",
            "ran": "tools/seedcheck.sh / tools/seedall.sh (govc check --prop <id> against a scratch copy with the patch applied)",
            "result": "", "detected_by": ""}
    json.dump(meta, open(os.path.join(dst, 'meta.json'), 'w'), indent=1)
