#!/usr/bin/env python3
# usage: seedrecord.py <glob>  - runs tools/seedall.sh on the matching seeds and records result / detected_by in meta.json
# (an entry whose recorded result starts with "caught (after strengthening)" keeps that wording)
import sys, subprocess, json, re, os
g = sys.argv[1]
out = subprocess.run(['/verif/tools/seedall.sh', g], capture_output=True, text=True).stdout
print(out)
for ln in out.splitlines():
    m = re.match(r'^(\S+): (.*)$', ln)
    if not m or not os.path.exists(f'/verif/seeded/{m.group(1)}/meta.json'): continue
    sid, rest = m.group(1), m.group(2)
    p = f'/verif/seeded/{sid}/meta.json'
    d = json.load(open(p))
    caught = re.findall(r'(C\d\d):caught\[([^\]]*)\]', rest)
    prev = d.get('result', '')
    if caught:
        if prev.startswith('missed') or prev == '' and d.get('first_try') == 'missed':
            d['result'] = 'caught (after strengthening)'
        elif not prev.startswith('caught'):
            d['result'] = 'caught'
        d['detected_by'] = '; '.join(f'{c}: {o}' for c, o in caught)
    else:
        if not prev.startswith('caught'):
            d['result'] = 'missed'
            d.setdefault('detected_by', '')
    json.dump(d, open(p, 'w'), indent=1)
