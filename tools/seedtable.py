#!/usr/bin/env python3
# Regenerates the table of seeded changes in DESIGN.md (between the SEEDTABLE markers) from seeded/*/meta.json.
import json,os,re
base='/verif/seeded'
rows=[]
for k in sorted(os.listdir(base)):
    mp=os.path.join(base,k,'meta.json')
    if not os.path.exists(mp): continue
    d=json.load(open(mp))
    what=d['needs_to_manifest'].strip().split('\n')[0]
    if len(what)>150: what=what[:147]+'...'
    rows.append('| %s | %s | %s | %s | %s |'%(k,d['breaks_property'],what.replace('|','\\|'),d['result'],d['detected_by'].replace('|','\\|')))
tab='| seed | property | change (first line of its note) | result | failed obligation / why |\n|---|---|---|---|---|\n'+'\n'.join(rows)+'\n'
p='/verif/DESIGN.md'
s=open(p).read()
a='<!-- SEEDTABLE:BEGIN -->\n'; b='<!-- SEEDTABLE:END -->'
i=s.index(a)+len(a); j=s.index(b)
s=s[:i]+tab+s[j:]
open(p,'w').write(s)
print(len(rows),'rows')
