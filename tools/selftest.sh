#!/bin/bash
# Must-fail corpus: every patch under selftest/mutants/<prop>/ must make `govc check --prop <prop>` report a VIOLATION.
# usage: selftest.sh [prop...]
cd /verif/selftest/mutants || exit 2
props=${@:-$(ls)}
fail=0
for p in $props; do
  for f in $p/*.patch; do
    [ -f "$f" ] || continue
    d=$(mktemp -d /tmp/selftest.XXXXXX)
    rsync -a --exclude .git /repo/ $d/
    if ! (cd $d && patch -p1 -s < /verif/selftest/mutants/$f); then echo "PATCH-FAILED $f"; fail=1; rm -rf $d; continue; fi
    out=$(/verif/bin/govc check --prop $p --repo $d --no-evidence --timeout 8 2>&1)
    if echo "$out" | grep -q "^VIOLATION property=$p"; then
      echo "caught   $f: $(echo "$out" | grep 'failed obligation' | head -1 | sed 's/ -- .*//')"
    else
      echo "MISSED   $f: $(echo "$out" | tail -1)"; fail=1
    fi
    rm -rf $d
  done
done
exit $fail
