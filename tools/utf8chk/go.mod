module utf8chk
go 1.22
