package utf8chk

// Validation of the assumed axiom utf8_decode (prelude/60_note.spec) against the real unicode/utf8.DecodeRune:
// exhaustive over every byte string of length 0..3 and every 4-byte string whose first byte is >= 0xF0
// (the only first bytes for which the fourth byte can matter).
import (
	"testing"
	"unicode/utf8"
)

func check(t *testing.T, p []byte) {
	r, size := utf8.DecodeRune(p)
	if !(0 <= size && size <= 4 && size <= len(p) && (len(p) == 0 || size >= 1)) {
		t.Fatalf("size law fails on % x: %d", p, size)
	}
	if len(p) == 0 {
		if r != 65533 {
			t.Fatalf("empty input: %d", r)
		}
		return
	}
	if p[0] < 128 {
		if !(r == rune(p[0]) && size == 1) {
			t.Fatalf("ascii law fails on % x", p)
		}
		return
	}
	if !(r >= 128 && r <= 1114111) {
		t.Fatalf("non-ascii rune law fails on % x: %d", p, r)
	}
	for k := 0; k < size; k++ {
		if p[k] < 128 {
			t.Fatalf("consumed byte < 0x80 on % x (size %d)", p, size)
		}
	}
}

func TestAxiom(t *testing.T) {
	check(t, nil)
	var b [4]byte
	for a := 0; a < 256; a++ {
		b[0] = byte(a)
		check(t, b[:1])
		for c := 0; c < 256; c++ {
			b[1] = byte(c)
			check(t, b[:2])
			for d := 0; d < 256; d++ {
				b[2] = byte(d)
				check(t, b[:3])
				if a >= 0xF0 {
					for e := 0; e < 256; e++ {
						b[3] = byte(e)
						check(t, b[:4])
					}
				}
			}
		}
	}
}
